#!/bin/bash
# Supplementary sanitizer run (not a property check): the pure-function monitors of C02, C03, C04 and
# C13 executed under Miri (undefined-behaviour interpreter) on a small shard each. The monitors'
# oracles run too, so a Miri-only arithmetic difference would also show up as a violation.
# Exit 0: no UB report and no violation; 1: Miri reported UB or a monitor fired; 2: could not run.
cd /verif/harness || exit 2
export CARGO_NET_OFFLINE=true CARGO_TARGET_DIR=/verif/harness/target/miri VERIF_DIR=/verif/harness/target/miri_vd
# parameters go through -Zmiri-env-set (plain shell environment is not reliably forwarded to the interpreted program)
BASEFLAGS="-Zmiri-disable-isolation -Zmiri-env-set=VERIF_PURE_ONLY=1 -Zmiri-env-set=VERIF_THREADS=1 -Zmiri-env-set=VERIF_DIR=$VERIF_DIR"
export MIRIFLAGS="$BASEFLAGS"
mkdir -p $VERIF_DIR/evidence $VERIF_DIR/replays && cp /verif/known_findings.json $VERIF_DIR/
cargo +nightly miri setup > $VERIF_DIR/setup.log 2>&1 || { echo "INCONCLUSIVE: miri setup failed"; exit 2; }
# build once, then 4 interpreters in parallel
MIRIFLAGS="$BASEFLAGS -Zmiri-env-set=VERIF_SCALE=0.000001" cargo +nightly miri run --offline -- C13 quick > $VERIF_DIR/warm.log 2>&1
run() { MIRIFLAGS="$BASEFLAGS -Zmiri-env-set=VERIF_SCALE=$2" timeout 3000 cargo +nightly miri run --offline -- $1 quick > $VERIF_DIR/$1.log 2>&1; echo $? > $VERIF_DIR/$1.rc; }
run C02 0.00002 & run C03 0.000001 & run C04 0.000001 & run C13 0.0002 & wait
rc=0
python3 - <<'PY' || rc=$?
import json,re,subprocess,sys,os
vd=os.environ['VERIF_DIR']; out={}; bad=False; incon=False
for p in ['C02','C03','C04','C13']:
    log=open(f'{vd}/{p}.log',errors='replace').read()
    code=int(open(f'{vd}/{p}.rc').read().strip() or 2)
    ub=len(re.findall(r'Undefined Behavior|error: unsupported operation|error: abnormal termination',log))
    m=re.search(r'^'+p+r' quick .*$',log,re.M)
    viol=len(re.findall(r'^VIOLATION',log,re.M))
    ev=int(re.search(r'evaluations=(\d+)',m.group(0)).group(1)) if m else 0
    out[p]={"exit_code":code,"miri_ub_reports":ub,"violations":viol,"evaluations_under_miri":ev,"summary_line":m.group(0) if m else None}
    if ub or viol: bad=True
    if not m: incon=True
ver=subprocess.run(['cargo','+nightly','miri','--version'],capture_output=True,text=True).stdout.strip()
json.dump({"tool":ver,"flags":os.environ.get('MIRIFLAGS',''),"note":"pure-function parts only; exit code 2 of a shard means its end-to-end coverage obligations were (deliberately) not run","shards":out},open('/verif/sanitizer/miri_summary.json','w'),indent=1)
for p,v in out.items(): print(p,v)
sys.exit(1 if bad else (2 if incon else 0))
PY
exit $rc
