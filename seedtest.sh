#!/bin/sh
# usage: seedtest.sh <seed-dir-name> <PROP> [tier]   — applies the seeded change to /repo, runs the check, reverts.
S=/verif/seeded/$1
cd /repo || exit 2
if ! git diff --quiet; then echo "/repo is dirty"; exit 2; fi
git apply "$S/patch.diff" || { echo "patch does not apply"; exit 2; }
cd /verif && ./check $2 ${3:-quick} > /tmp/seedtest_$1_$2.log 2>&1
rc=$?
git -C /repo checkout -- .
echo "$1 $2 exit=$rc"; grep -E "^VIOLATION|^INCONCLUSIVE|^KNOWN|violations=" /tmp/seedtest_$1_$2.log | cut -c1-200 | head -8
grep -E "^violation signature" /tmp/seedtest_$1_$2.log | cut -c1-160 | sort | uniq -c | sort -rn | head -5
