#!/usr/bin/env python3
"""Regenerates MANIFEST.json from the table below (kept in one place so it stays valid)."""
import json, sys
CLAIMED = json.load(open('/verif/manifest_checks.json'))
props = [json.loads(l) for l in open('/verif/properties.jsonl')]
checks = []
na = []
for p in props:
    pid = p['id']
    if pid in CLAIMED:
        c = CLAIMED[pid]
        checks.append({
            "property_id": pid,
            "quick_cmd": f"./check {pid} quick",
            "thorough_cmd": f"./check {pid} thorough",
            "evidence_file": f"/verif/evidence/{pid}.json",
            "replay_cmd_template": f"./check {pid} quick --replay {{path}}",
            "engine": "wwcheck",
            "level_claimed": {"category": c["level"], "text": c["text"], "design_ref": c["design_ref"]},
            "level_note": c["note"],
            "technique": c["technique"],
        })
    else:
        na.append({"property_id": pid, "reason": "monitor not built yet in this session (runtime monitoring applies; see DESIGN.md §4)"})
m = {
    "version": 1,
    "setup_cmd": "cd /verif/harness && CARGO_NET_OFFLINE=true cargo build --release --offline",
    "hooks": {
        "guard": "wwcore_verif",
        "enable": "RUSTFLAGS=--cfg wwcore_verif (set in /verif/harness/.cargo/config.toml; the harness crate depends on /repo's contracts by path and patches white-whale-std to the in-tree package)",
        "baseline_off_cmd": "cd /repo && cargo test --workspace --no-fail-fast --offline",
        "source_commits": ["77ee2ff"],
        "add_only": True,
    },
    "engines": [{
        "name": "wwcheck",
        "path": "/verif/harness",
        "serves_properties": sorted(CLAIMED.keys()),
        "kind_free_text": "runtime monitoring: real contracts (path deps into /repo) executed in cw-multi-test under randomised / enumerated hostile workloads, every contract wrapped in a panic-to-error Trap with a boundary call log; invariant monitors, reference-model ledgers and an exact U1024 curve oracle judge every committed step"
    }],
    "checks": checks,
    "notes": "Exit codes of ./check: 0 held on everything observed (KNOWN-FINDING lines possible), 1 VIOLATION, 2 inconclusive (build failure / unmet coverage obligation / harness panic). Known findings: /verif/known_findings.json. Seeded breaking changes: /verif/seeded/.",
    "not_applicable": na,
}
json.dump(m, open('/verif/MANIFEST.json', 'w'), indent=1)
print("claimed", len(checks), "not_applicable", len(na))
