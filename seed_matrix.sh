#!/bin/bash
# Applies every seeded change in /verif/seeded to /repo (one at a time, reverted immediately), runs the
# quick check of the property it breaks, and records what fired in seeded/<id>/meta.json and seeded/RESULTS.md.
# usage: seed_matrix.sh [tier] [seed-id ...]
tier=${1:-quick}; shift
cd /repo || exit 2
if ! git diff --quiet; then echo "/repo is dirty"; exit 2; fi
ids="$@"; [ -z "$ids" ] && ids=$(ls /verif/seeded | grep -E '^C[0-9]+-[0-9]+$')
out=/verif/seeded/RESULTS.md
echo "| change | breaks | needs to manifest | $tier check of that property | signatures that fired (count) |" > $out
echo "|---|---|---|---|---|" >> $out
for id in $ids; do
  prop=${id%-*}; S=/verif/seeded/$id
  git -C /repo apply $S/patch.diff || { echo "| $id | $prop | patch does not apply | - | - |" >> $out; continue; }
  log=$(mktemp); (cd /verif && ./check $prop $tier > $log 2>&1); rc=$?
  git -C /repo checkout -- .
  python3 - "$id" "$prop" "$rc" "$log" "$tier" >> $out <<'PY'
import sys,json,re,collections
id,prop,rc,log,tier=sys.argv[1:6]
txt=open(log,errors='replace').read()
sigs=collections.Counter(re.findall(r'^violation signature=(\S+)',txt,re.M))
# per-signature totals from the evidence file when available
try:
    ev=json.load(open(f'/verif/evidence/{prop}.json'))
    vb=None
    def find(o):
        global vb
        if isinstance(o,dict):
            for k,v in o.items():
                if k=='violations_by_signature' and isinstance(v,dict): vb=v
                else: find(v)
        elif isinstance(o,list):
            for x in o: find(x)
    find(ev)
    if vb: sigs=collections.Counter({k.split('|',1)[-1]:v for k,v in vb.items()})
except Exception: pass
meta_p=f'/verif/seeded/{id}/meta.json'
try: meta=json.load(open(meta_p))
except Exception: meta={"seed":id,"breaks_property":prop}
top=sigs.most_common(4)
meta['caught_by']={"check":f"./check {prop} {tier}","exit_code":int(rc),"signatures":dict(top)}
json.dump(meta,open(meta_p,'w'),indent=1)
needs=meta.get('needs_to_manifest','').replace('|','/')
verdict={0:'MISSED (exit 0)',1:'caught (exit 1)',2:'inconclusive (exit 2)'}.get(int(rc),f'exit {rc}')
print(f"| {id} | {prop} | {needs} | {verdict} | "+'; '.join(f"`{k}` ({v})" for k,v in top)+" |")
PY
  rm -f $log
  echo "$id rc=$rc"
done
# restore the evidence of the unchanged tree for the properties touched
