#!/bin/bash
# usage: import_round.sh <PROP>   — imports /tmp/wt/r5-out/<PROP>/{a,b,c} as the next free seeded/<PROP>-<n> and verifies
# each in the agent's own (warm) scratch worktree /tmp/wt/r5-<PROP>
P=$1
n=$(ls /verif/seeded | grep -E "^$P-[0-9]+$" | sed "s/$P-//" | sort -n | tail -1)
for x in a b c; do
  src=/tmp/wt/r5-out/$P/$x
  [ -f $src/patch.diff ] && [ -f $src/demo.rs ] && [ -f $src/info.json ] || { echo "$P/$x incomplete"; continue; }
  n=$((n+1)); id=$P-$n; d=/verif/seeded/$id; mkdir -p $d
  cp $src/patch.diff $d/patch.diff; cp $src/demo.rs $d/demo.rs; cp $src/info.json $d/agent_info.json
  cdir=$(python3 -c "import json;print(json.load(open('$src/info.json'))['crate_dir'].rstrip('/'))")
  cname=$(python3 -c "import json;print(json.load(open('$src/info.json'))['crate_name'])")
  needs=$(python3 -c "import json;print(json.load(open('$src/info.json'))['needs'].replace('\"','\''))")
  WT=/tmp/wt/r5-$P /verif/verify_seed.sh $id $cdir $cname demo.rs $P "$needs"
done
