#!/usr/bin/env python3
"""Print a compact summary of /verif/evidence/<ID>.json (developer helper)."""
import json, sys
pid = sys.argv[1]
e = json.load(open(f'/verif/evidence/{pid}.json'))
c = e['coverage']
print('evals', c['evaluations'], 'distinct', c['distinct_nontrivial'], 'wall', round(e['wall_s'], 1), 'violations', e.get('violations'))
cnt = {k: v for k, v in c['counters'].items() if not k.startswith('trap-site')}
print(json.dumps(cnt, indent=0)[:int(sys.argv[2]) if len(sys.argv) > 2 else 2500])
traps = {k: v for k, v in c['counters'].items() if k.startswith('trap-site')}
print('trap sites:', len(traps))
for k, v in sorted(traps.items(), key=lambda x: -x[1])[:8]:
    print('  ', v, k[:200])
print('violations_by_signature', json.dumps(c['violations_by_signature'], indent=0))
print('known hits', c['known_finding_hits'])
print('slack', json.dumps({k: round(v['min_slack'], 14) for k, v in c['min_slack'].items()}, indent=0)[:1500])
print('unmet', c['unmet_obligations'], 'inconclusive', c['inconclusive'][:3])
