#!/bin/sh
# usage: multiseed.sh <tier> <seed>...   — runs every property at each seed, one summary line per run
tier=$1; shift
for seed in "$@"; do
  for p in C01 C02 C03 C04 C05 C06 C07 C08 C09 C10 C11 C12 C13 C14 C15 C16 C17 C18 C19 C20; do
    out=$(VERIF_SEED=$seed /verif/check $p $tier 2>&1); rc=$?
    echo "seed=$seed $p exit=$rc $(echo "$out" | grep -E "^C[0-9]+ $tier" | tail -1)"
    echo "$out" | grep -E "^VIOLATION|^INCONCLUSIVE" | head -5
  done
done
