//! wwcheck <PROPERTY> <quick|thorough> [--replay <file>]
#![allow(clippy::too_many_arguments)]

mod adversary;
mod curve;
mod mon;
mod rng;
mod rt;
mod trap;
mod wide;
mod world;

use rt::{Ctx, ReplaySpec, Tier};

fn main() {
    let args: Vec<String> = std::env::args().collect();
    if args.len() < 3 {
        eprintln!("usage: wwcheck <C01..C20> <quick|thorough> [--replay <file>]");
        std::process::exit(2);
    }
    let prop = args[1].to_uppercase();
    let tier = match args[2].as_str() {
        "quick" => Tier::Quick,
        "thorough" => Tier::Thorough,
        _ => {
            eprintln!("tier must be quick or thorough");
            std::process::exit(2);
        }
    };
    let mut seed: u64 = std::env::var("VERIF_SEED").ok().and_then(|s| s.parse().ok()).unwrap_or(1);
    let mut tier = tier;
    let mut replay = None;
    if args.len() >= 5 && args[3] == "--replay" {
        let txt = std::fs::read_to_string(&args[4]).expect("read replay file");
        let v: serde_json::Value = serde_json::from_str(&txt).expect("parse replay file");
        seed = v["seed"].as_u64().unwrap_or(seed);
        tier = if v["tier"].as_str() == Some("thorough") { Tier::Thorough } else { Tier::Quick };
        replay = Some(ReplaySpec {
            shard: v["shard"].as_u64().unwrap_or(0),
            history: v["history"].as_u64().unwrap_or(0),
            signature: v["signature"].as_str().unwrap_or("").to_string(),
        });
    }
    let threads: usize = std::env::var("VERIF_THREADS")
        .ok()
        .and_then(|s| s.parse().ok())
        .unwrap_or_else(|| std::thread::available_parallelism().map(|n| n.get()).unwrap_or(8));
    let scale: f64 = std::env::var("VERIF_SCALE").ok().and_then(|s| s.parse().ok()).unwrap_or(1.0);
    let verif_dir = std::env::var("VERIF_DIR").unwrap_or_else(|_| "/verif".to_string());
    trap::install_quiet_panic_hook();
    let pure_only = std::env::var("VERIF_PURE_ONLY").map(|v| v == "1").unwrap_or(false);
    let ctx = Ctx { prop: prop.clone(), tier, seed, threads, replay, scale, pure_only };
    let started = std::time::Instant::now();
    let Some((meta, total)) = mon::dispatch(&ctx) else {
        eprintln!("unknown property {prop}");
        std::process::exit(2);
    };
    let out = rt::finish(&ctx, meta, total, started, &verif_dir);
    std::process::exit(out.exit);
}
