//! Small deterministic PRNG (xoshiro256**) plus boundary-biased generators.
//! No external crates: every run is replayable from (seed, property, tier, shard, history).

#[derive(Clone, Debug)]
pub struct Rng {
    s: [u64; 4],
}

fn splitmix(x: &mut u64) -> u64 {
    *x = x.wrapping_add(0x9E3779B97F4A7C15);
    let mut z = *x;
    z = (z ^ (z >> 30)).wrapping_mul(0xBF58476D1CE4E5B9);
    z = (z ^ (z >> 27)).wrapping_mul(0x94D049BB133111EB);
    z ^ (z >> 31)
}

pub fn mix(parts: &[u64]) -> u64 {
    let mut h: u64 = 0xcbf29ce484222325;
    for p in parts {
        let mut x = h ^ p.wrapping_mul(0x100000001b3);
        h = splitmix(&mut x);
    }
    h
}

pub fn hash_str(s: &str) -> u64 {
    let mut h: u64 = 0xcbf29ce484222325;
    for b in s.bytes() {
        h ^= b as u64;
        h = h.wrapping_mul(0x100000001b3);
    }
    h
}

impl Rng {
    pub fn new(seed: u64) -> Self {
        let mut x = seed;
        let s = [splitmix(&mut x), splitmix(&mut x), splitmix(&mut x), splitmix(&mut x)];
        Rng { s }
    }
    pub fn from_parts(parts: &[u64]) -> Self {
        Self::new(mix(parts))
    }
    pub fn next_u64(&mut self) -> u64 {
        let r = self.s[1].wrapping_mul(5).rotate_left(7).wrapping_mul(9);
        let t = self.s[1] << 17;
        self.s[2] ^= self.s[0];
        self.s[3] ^= self.s[1];
        self.s[1] ^= self.s[2];
        self.s[0] ^= self.s[3];
        self.s[2] ^= t;
        self.s[3] = self.s[3].rotate_left(45);
        r
    }
    pub fn next_u128(&mut self) -> u128 {
        ((self.next_u64() as u128) << 64) | self.next_u64() as u128
    }
    /// uniform in [0, n)
    pub fn below(&mut self, n: u64) -> u64 {
        if n == 0 {
            return 0;
        }
        self.next_u64() % n
    }
    pub fn below128(&mut self, n: u128) -> u128 {
        if n == 0 {
            return 0;
        }
        self.next_u128() % n
    }
    /// uniform in [lo, hi] inclusive
    pub fn range(&mut self, lo: u64, hi: u64) -> u64 {
        if hi <= lo {
            return lo;
        }
        lo + self.below(hi - lo + 1)
    }
    pub fn range128(&mut self, lo: u128, hi: u128) -> u128 {
        if hi <= lo {
            return lo;
        }
        let span = hi - lo;
        if span == u128::MAX {
            return self.next_u128();
        }
        lo + self.below128(span + 1)
    }
    pub fn chance(&mut self, num: u64, den: u64) -> bool {
        self.below(den) < num
    }
    pub fn pick<'a, T>(&mut self, xs: &'a [T]) -> &'a T {
        &xs[self.below(xs.len() as u64) as usize]
    }
    pub fn idx(&mut self, n: usize) -> usize {
        self.below(n as u64) as usize
    }

    /// uniform in bit length up to `max_bits` (1..=128), then uniform inside that length
    pub fn bits(&mut self, max_bits: u32) -> u128 {
        let b = self.range(1, max_bits as u64) as u32;
        let v = self.next_u128();
        let v = if b == 128 { v } else { v & ((1u128 << b) - 1) };
        let top = 1u128 << (b - 1);
        v | top
    }

    /// Boundary-biased amount in [1, max]: small constants, 10^k±1, 2^k±1, and uniform-in-bit-length.
    pub fn amount(&mut self, max: u128) -> u128 {
        let max = max.max(1);
        let v = match self.below(10) {
            0 => *self.pick(&[1u128, 2, 3, 999, 1000, 1001, 1_000_000, 1_000_001, 999_999]),
            1 => {
                let k = self.range(0, 38) as u32;
                let p = 10u128.pow(k);
                match self.below(3) {
                    0 => p,
                    1 => p.saturating_sub(1).max(1),
                    _ => p.saturating_add(1),
                }
            }
            2 => {
                let k = self.range(0, 127) as u32;
                let p = 1u128 << k;
                match self.below(3) {
                    0 => p,
                    1 => p.saturating_sub(1).max(1),
                    _ => p.saturating_add(1),
                }
            }
            3 => max,
            4 => max - self.below128(max.min(3)),
            _ => {
                let mb = 128 - max.leading_zeros();
                self.bits(mb.max(1))
            }
        };
        v.clamp(1, max)
    }

    /// amount near a reference value (±small), or a random fraction of it
    pub fn near(&mut self, reference: u128, max: u128) -> u128 {
        let v = match self.below(6) {
            0 => reference,
            1 => reference.saturating_sub(1),
            2 => reference.saturating_add(1),
            3 => reference / 2,
            4 => {
                let d = self.range(1, 1000) as u128;
                reference / d
            }
            _ => self.range128(1, reference.max(1)),
        };
        v.clamp(1, max.max(1))
    }

    /// Fee share as 18-decimal atomics, for a triple member. Mostly small/typical.
    pub fn fee_atomics(&mut self) -> u128 {
        const ONE: u128 = 1_000_000_000_000_000_000;
        match self.below(10) {
            0 | 1 => 0,
            2 => 1,
            3 => ONE / 1000,            // 0.1%
            4 => ONE / 100,             // 1%
            5 => 3 * ONE / 1000,        // 0.3%
            6 => self.range128(1, ONE / 10),
            7 => ONE / 3,
            8 => self.range128(1, ONE / 1000),
            _ => self.range128(0, ONE / 50),
        }
    }

    /// A valid fee triple (each < 1 and sum < 1) in atomics.
    pub fn fee_triple(&mut self) -> [u128; 3] {
        const ONE: u128 = 1_000_000_000_000_000_000;
        match self.below(12) {
            0 => [0, 0, 0],
            1 => {
                // sum = 1 - 1e-18
                let a = self.range128(0, ONE - 1);
                let b = self.range128(0, ONE - 1 - a);
                let c = ONE - 1 - a - b;
                [a, b, c]
            }
            2 => [ONE / 1000, ONE / 500, 0],
            _ => loop {
                let t = [self.fee_atomics(), self.fee_atomics(), self.fee_atomics()];
                if t[0] + t[1] + t[2] < ONE {
                    break t;
                }
            },
        }
    }
}
