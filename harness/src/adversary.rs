//! Adversary / helper contracts used by the monitors (never part of /repo):
//!  * borrower  — flash-loan callee that interprets a script carried in its callback message
//!  * faucet    — sends an asset it holds to whoever asks (lets router payloads "earn" their fees)
//!  * hook_rx   — records EpochChangedHook notifications
//!  * sibling   — relays arbitrary messages (the "other contract" role)

use cosmwasm_schema::cw_serde;
use cosmwasm_std::{
    coins, to_json_binary, Addr, BankMsg, Binary, CosmosMsg, Deps, DepsMut, Empty, Env, MessageInfo,
    Reply, Response, StdError, StdResult, SubMsg, Uint128, WasmMsg,
};
use cw_multi_test::{Contract, ContractWrapper};
use cw_storage_plus::Item;
use white_whale_std::pool_network::asset::AssetInfo;
use white_whale_std::vault_network::vault::{ExecuteMsg as VaultExec, PaybackAmountResponse, QueryMsg as VaultQuery};

#[cw_serde]
pub enum RepayMode {
    Exact,
    Minus1,
    Plus(Uint128),
    Nothing,
    PrincipalOnly,
    /// the quoted payback minus a given amount (e.g. the fees of the loans nested deeper down)
    ShortBy(Uint128),
}

#[cw_serde]
pub enum Act {
    /// repay `loan` borrowed from `vault` (asset described by `asset`)
    Repay { vault: String, asset: AssetInfo, loan: Uint128, mode: RepayMode },
    Fail,
    Panic,
    Deposit { vault: String, asset: AssetInfo, amount: Uint128 },
    Withdraw { vault: String, lp_token: String, lp: Uint128 },
    CollectFees { vault: String },
    UpdateConfigAttempt { vault: String },
    /// flip the vault's switches (only works when this contract owns the vault)
    OwnerToggle { vault: String, flash_loan_enabled: Option<bool>, deposit_enabled: Option<bool>, withdraw_enabled: Option<bool> },
    /// take another loan (same or other vault); `script` runs in its callback
    Loan { vault: String, amount: Uint128, script: Vec<Step> },
    /// send an asset to some address (e.g. the router, to let it repay)
    Send { asset: AssetInfo, to: String, amount: Uint128 },
    /// call the vault's internal callback (AfterTrade) as the borrower, from inside the borrower's own loan
    ForgeAfterTrade { vault: String, old_balance: Uint128, loan_amount: Uint128 },
}

#[cw_serde]
pub struct Step {
    pub act: Act,
    /// run this action in a sub-message whose failure is swallowed (reply_on: Error)
    pub swallow: bool,
}

#[cw_serde]
pub enum BorrowerExec {
    Run { script: Vec<Step> },
    /// internal: self-call wrapper for a swallowed action
    Guard { id: u64, step: Box<Step> },
    /// internal: self-call wrapper that builds the action's messages when it is dispatched, not when the script starts
    /// (a repayment that follows other actions asks for its quote after those actions have run)
    Lazy { step: Box<Step> },
    /// top-level helper: ask the borrower to take a loan itself
    Start { vault: String, amount: Uint128, script: Vec<Step> },
}

const NEXT_ID: Item<u64> = Item::new("next_id");

fn send_asset(asset: &AssetInfo, to: &str, amount: Uint128) -> CosmosMsg {
    match asset {
        AssetInfo::NativeToken { denom } => BankMsg::Send { to_address: to.to_string(), amount: coins(amount.u128(), denom) }.into(),
        AssetInfo::Token { contract_addr } => WasmMsg::Execute {
            contract_addr: contract_addr.clone(),
            msg: to_json_binary(&cw20::Cw20ExecuteMsg::Transfer { recipient: to.to_string(), amount }).unwrap(),
            funds: vec![],
        }
        .into(),
    }
}

fn act_msgs(deps: Deps, env: &Env, act: &Act) -> StdResult<Vec<CosmosMsg>> {
    Ok(match act {
        Act::Repay { vault, asset, loan, mode } => {
            let q: PaybackAmountResponse = deps.querier.query_wasm_smart(vault.clone(), &VaultQuery::GetPaybackAmount { amount: *loan })?;
            let amt = match mode {
                RepayMode::Exact => q.payback_amount,
                RepayMode::Minus1 => q.payback_amount.saturating_sub(Uint128::one()),
                RepayMode::Plus(k) => q.payback_amount + *k,
                RepayMode::Nothing => Uint128::zero(),
                RepayMode::PrincipalOnly => *loan,
                RepayMode::ShortBy(x) => q.payback_amount.saturating_sub(*x),
            };
            if amt.is_zero() {
                vec![]
            } else {
                vec![send_asset(asset, vault, amt)]
            }
        }
        Act::Fail => return Err(StdError::generic_err("borrower: scripted failure")),
        Act::Panic => panic!("borrower: scripted panic"),
        Act::Deposit { vault, asset, amount } => match asset {
            AssetInfo::NativeToken { denom } => vec![WasmMsg::Execute {
                contract_addr: vault.clone(),
                msg: to_json_binary(&VaultExec::Deposit { amount: *amount })?,
                funds: coins(amount.u128(), denom),
            }
            .into()],
            AssetInfo::Token { contract_addr } => {
                // set the allowance to exactly `amount`
                let cur: cw20::AllowanceResponse = deps.querier.query_wasm_smart(
                    contract_addr.clone(),
                    &cw20::Cw20QueryMsg::Allowance { owner: env.contract.address.to_string(), spender: vault.clone() },
                )?;
                let mut v: Vec<CosmosMsg> = vec![];
                if !cur.allowance.is_zero() {
                    v.push(
                        WasmMsg::Execute {
                            contract_addr: contract_addr.clone(),
                            msg: to_json_binary(&cw20::Cw20ExecuteMsg::DecreaseAllowance { spender: vault.clone(), amount: cur.allowance, expires: None })?,
                            funds: vec![],
                        }
                        .into(),
                    );
                }
                v.push(
                    WasmMsg::Execute {
                        contract_addr: contract_addr.clone(),
                        msg: to_json_binary(&cw20::Cw20ExecuteMsg::IncreaseAllowance { spender: vault.clone(), amount: *amount, expires: None })?,
                        funds: vec![],
                    }
                    .into(),
                );
                v.push(WasmMsg::Execute { contract_addr: vault.clone(), msg: to_json_binary(&VaultExec::Deposit { amount: *amount })?, funds: vec![] }.into());
                v
            }
        },
        Act::Withdraw { vault, lp_token, lp } => vec![WasmMsg::Execute {
            contract_addr: lp_token.clone(),
            msg: to_json_binary(&cw20::Cw20ExecuteMsg::Send {
                contract: vault.clone(),
                amount: *lp,
                msg: to_json_binary(&white_whale_std::vault_network::vault::Cw20HookMsg::Withdraw {})?,
            })?,
            funds: vec![],
        }
        .into()],
        Act::CollectFees { vault } => vec![WasmMsg::Execute { contract_addr: vault.clone(), msg: to_json_binary(&VaultExec::CollectProtocolFees {})?, funds: vec![] }.into()],
        Act::UpdateConfigAttempt { vault } => vec![WasmMsg::Execute {
            contract_addr: vault.clone(),
            msg: to_json_binary(&VaultExec::UpdateConfig(white_whale_std::vault_network::vault::UpdateConfigParams {
                flash_loan_enabled: None,
                deposit_enabled: None,
                withdraw_enabled: None,
                new_owner: Some(env.contract.address.to_string()),
                new_vault_fees: None,
                new_fee_collector_addr: Some(env.contract.address.to_string()),
            }))?,
            funds: vec![],
        }
        .into()],
        Act::OwnerToggle { vault, flash_loan_enabled, deposit_enabled, withdraw_enabled } => vec![WasmMsg::Execute {
            contract_addr: vault.clone(),
            msg: to_json_binary(&VaultExec::UpdateConfig(white_whale_std::vault_network::vault::UpdateConfigParams {
                flash_loan_enabled: *flash_loan_enabled,
                deposit_enabled: *deposit_enabled,
                withdraw_enabled: *withdraw_enabled,
                new_owner: None,
                new_vault_fees: None,
                new_fee_collector_addr: None,
            }))?,
            funds: vec![],
        }
        .into()],
        Act::Loan { vault, amount, script } => vec![WasmMsg::Execute {
            contract_addr: vault.clone(),
            msg: to_json_binary(&VaultExec::FlashLoan { amount: *amount, msg: to_json_binary(&BorrowerExec::Run { script: script.clone() })? })?,
            funds: vec![],
        }
        .into()],
        Act::Send { asset, to, amount } => vec![send_asset(asset, to, *amount)],
        Act::ForgeAfterTrade { vault, old_balance, loan_amount } => vec![WasmMsg::Execute {
            contract_addr: vault.clone(),
            msg: to_json_binary(&VaultExec::Callback(white_whale_std::vault_network::vault::CallbackMsg::AfterTrade { old_balance: *old_balance, loan_amount: *loan_amount }))?,
            funds: vec![],
        }
        .into()],
    })
}

fn borrower_instantiate(deps: DepsMut, _env: Env, _info: MessageInfo, _msg: Empty) -> StdResult<Response> {
    NEXT_ID.save(deps.storage, &1)?;
    Ok(Response::new())
}

fn borrower_execute(deps: DepsMut, env: Env, _info: MessageInfo, msg: BorrowerExec) -> StdResult<Response> {
    match msg {
        BorrowerExec::Start { vault, amount, script } => {
            let m: CosmosMsg = WasmMsg::Execute {
                contract_addr: vault,
                msg: to_json_binary(&VaultExec::FlashLoan { amount, msg: to_json_binary(&BorrowerExec::Run { script })? })?,
                funds: vec![],
            }
            .into();
            Ok(Response::new().add_message(m))
        }
        BorrowerExec::Lazy { step } => {
            let msgs = act_msgs(deps.as_ref(), &env, &step.act)?;
            Ok(Response::new().add_messages(msgs).add_attribute("borrower", "lazy"))
        }
        BorrowerExec::Guard { id: _, step } => {
            let msgs = act_msgs(deps.as_ref(), &env, &step.act)?;
            Ok(Response::new().add_messages(msgs).add_attribute("borrower", "guard"))
        }
        BorrowerExec::Run { script } => {
            let mut resp = Response::new().add_attribute("borrower", "run");
            for (idx, step) in script.into_iter().enumerate() {
                if !step.swallow && idx > 0 && matches!(step.act, Act::Repay { .. }) {
                    let inner = Step { act: step.act.clone(), swallow: false };
                    resp = resp.add_message(WasmMsg::Execute { contract_addr: env.contract.address.to_string(), msg: to_json_binary(&BorrowerExec::Lazy { step: Box::new(inner) })?, funds: vec![] });
                } else if step.swallow {
                    let id = NEXT_ID.load(deps.storage)?;
                    NEXT_ID.save(deps.storage, &(id + 1))?;
                    let inner = Step { act: step.act.clone(), swallow: false };
                    resp = resp.add_submessage(SubMsg::reply_on_error(
                        WasmMsg::Execute { contract_addr: env.contract.address.to_string(), msg: to_json_binary(&BorrowerExec::Guard { id, step: Box::new(inner) })?, funds: vec![] },
                        id,
                    ));
                } else {
                    for m in act_msgs(deps.as_ref(), &env, &step.act)? {
                        resp = resp.add_message(m);
                    }
                }
            }
            Ok(resp)
        }
    }
}

fn borrower_reply(_deps: DepsMut, _env: Env, msg: Reply) -> StdResult<Response> {
    // only called on error (reply_on: Error): swallow it
    Ok(Response::new().add_attribute("borrower", "swallowed").add_attribute("swallowed_id", msg.id.to_string()))
}

fn borrower_query(_deps: Deps, _env: Env, _msg: Empty) -> StdResult<Binary> {
    to_json_binary(&Empty {})
}

pub fn borrower_contract() -> Box<dyn Contract<Empty>> {
    crate::trap::Trap::new(Box::new(ContractWrapper::new(borrower_execute, borrower_instantiate, borrower_query).with_reply(borrower_reply)))
}

// ------------------------------------------------------------------------------------------------

#[cw_serde]
pub enum FaucetExec {
    Give { asset: AssetInfo, to: String, amount: Uint128 },
}

fn faucet_instantiate(_deps: DepsMut, _env: Env, _info: MessageInfo, _msg: Empty) -> StdResult<Response> {
    Ok(Response::new())
}
fn faucet_execute(_deps: DepsMut, _env: Env, _info: MessageInfo, msg: FaucetExec) -> StdResult<Response> {
    match msg {
        FaucetExec::Give { asset, to, amount } => Ok(Response::new().add_message(send_asset(&asset, &to, amount))),
    }
}
fn faucet_query(_deps: Deps, _env: Env, _msg: Empty) -> StdResult<Binary> {
    to_json_binary(&Empty {})
}
pub fn faucet_contract() -> Box<dyn Contract<Empty>> {
    crate::trap::Trap::new(Box::new(ContractWrapper::new(faucet_execute, faucet_instantiate, faucet_query)))
}

// ------------------------------------------------------------------------------------------------

#[cw_serde]
pub struct HookRecord {
    pub epoch_id: u64,
    pub start_time_ns: u64,
}
const HOOKS_SEEN: Item<Vec<HookRecord>> = Item::new("hooks_seen");
const HOOK_FAILS: Item<bool> = Item::new("hook_fails");

fn hookrx_instantiate(deps: DepsMut, _env: Env, _info: MessageInfo, _msg: Empty) -> StdResult<Response> {
    HOOKS_SEEN.save(deps.storage, &vec![])?;
    Ok(Response::new())
}
#[cw_serde]
pub enum HookRxExec {
    EpochChangedHook(white_whale_std::epoch_manager::hooks::EpochChangedHookMsg),
    /// fault injection: while set, every notification is answered with an error
    SetFail { fail: bool },
    /// this (possibly registered) hook contract itself asks the epoch manager for the next epoch
    Poke { manager: String },
}
fn hookrx_execute(deps: DepsMut, _env: Env, _info: MessageInfo, msg: HookRxExec) -> StdResult<Response> {
    let msg = match msg {
        HookRxExec::SetFail { fail } => {
            HOOK_FAILS.save(deps.storage, &fail)?;
            return Ok(Response::new());
        }
        HookRxExec::Poke { manager } => {
            return Ok(Response::new().add_message(WasmMsg::Execute {
                contract_addr: manager,
                msg: to_json_binary(&white_whale_std::epoch_manager::epoch_manager::ExecuteMsg::CreateEpoch {})?,
                funds: vec![],
            }));
        }
        HookRxExec::EpochChangedHook(msg) => msg,
    };
    if HOOK_FAILS.may_load(deps.storage)?.unwrap_or(false) {
        return Err(StdError::generic_err("hook_rx: injected failure"));
    }
    let mut v = HOOKS_SEEN.load(deps.storage)?;
    v.push(HookRecord { epoch_id: msg.current_epoch.id, start_time_ns: msg.current_epoch.start_time.nanos() });
    HOOKS_SEEN.save(deps.storage, &v)?;
    Ok(Response::new())
}
fn hookrx_query(deps: Deps, _env: Env, _msg: Empty) -> StdResult<Binary> {
    to_json_binary(&HOOKS_SEEN.load(deps.storage)?)
}
pub fn hookrx_contract() -> Box<dyn Contract<Empty>> {
    crate::trap::Trap::new(Box::new(ContractWrapper::new(hookrx_execute, hookrx_instantiate, hookrx_query)))
}

// ------------------------------------------------------------------------------------------------

#[cw_serde]
pub enum SiblingExec {
    Relay { msgs: Vec<CosmosMsg> },
}
fn sibling_instantiate(_deps: DepsMut, _env: Env, _info: MessageInfo, _msg: Empty) -> StdResult<Response> {
    Ok(Response::new())
}
fn sibling_execute(_deps: DepsMut, _env: Env, _info: MessageInfo, msg: SiblingExec) -> StdResult<Response> {
    match msg {
        SiblingExec::Relay { msgs } => Ok(Response::new().add_messages(msgs)),
    }
}
fn sibling_query(_deps: Deps, _env: Env, _msg: Empty) -> StdResult<Binary> {
    to_json_binary(&Empty {})
}
fn sibling_migrate(_deps: DepsMut, _env: Env, _msg: Empty) -> StdResult<Response> {
    Ok(Response::new())
}
/// relay contract; also usable as a migration target (its migrate accepts `{}`)
pub fn sibling_contract() -> Box<dyn Contract<Empty>> {
    crate::trap::Trap::new(Box::new(ContractWrapper::new(sibling_execute, sibling_instantiate, sibling_query).with_migrate(sibling_migrate)))
}

pub fn addr_s(a: &Addr) -> String {
    a.to_string()
}
