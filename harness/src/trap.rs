//! `Trap`: wraps a cw-multi-test `Contract` so that (a) a panic inside the contract becomes an
//! error at the contract boundary, like a wasm VM trap, and (b) every call crossing the boundary
//! is recorded in a thread-local event log (call before / outcome after).

use anyhow::{anyhow, Result as AnyResult};
use cosmwasm_std::{Binary, Deps, DepsMut, Empty, Env, MessageInfo, Reply, Response};
use cw_multi_test::Contract;
use std::cell::RefCell;
use std::panic::{catch_unwind, AssertUnwindSafe};

#[derive(Clone, Debug)]
pub struct CallRec {
    pub seq: u64,
    pub depth: u32,
    pub contract: String,
    pub entry: &'static str,
    pub sender: String,
    pub funds: Vec<cosmwasm_std::Coin>,
    pub msg: Vec<u8>,
    /// 0 = ok, 1 = err, 2 = trap
    pub outcome: u8,
    pub err: String,
    pub attrs: Vec<(String, String)>,
}

thread_local! {
    static LOG: RefCell<Vec<CallRec>> = RefCell::new(Vec::new());
    static LOG_ON: RefCell<bool> = RefCell::new(false);
    static LOG_QUERIES: RefCell<bool> = RefCell::new(false);
    static DEPTH: RefCell<u32> = RefCell::new(0);
    static SEQ: RefCell<u64> = RefCell::new(0);
    static LAST_PANIC: RefCell<(String, String)> = RefCell::new((String::new(), String::new()));
    static TRAPS: RefCell<std::collections::BTreeMap<String, u64>> = RefCell::new(Default::default());
}

pub fn install_quiet_panic_hook() {
    std::panic::set_hook(Box::new(|info| {
        let loc = info
            .location()
            .map(|l| format!("{}:{}", l.file(), l.line()))
            .unwrap_or_default();
        let msg = if let Some(s) = info.payload().downcast_ref::<String>() {
            s.clone()
        } else if let Some(s) = info.payload().downcast_ref::<&str>() {
            s.to_string()
        } else {
            "panic".to_string()
        };
        LAST_PANIC.with(|p| *p.borrow_mut() = (msg, loc));
    }));
}

pub fn last_panic_location() -> String {
    LAST_PANIC.with(|p| {
        let p = p.borrow();
        format!("{} [{}]", p.1, p.0)
    })
}

pub fn log_enable(on: bool, queries: bool) {
    LOG_ON.with(|l| *l.borrow_mut() = on);
    LOG_QUERIES.with(|l| *l.borrow_mut() = queries);
}
pub fn log_clear() {
    LOG.with(|l| l.borrow_mut().clear());
}
pub fn log_take() -> Vec<CallRec> {
    LOG.with(|l| std::mem::take(&mut *l.borrow_mut()))
}
pub fn log_len() -> usize {
    LOG.with(|l| l.borrow().len())
}
/// trap sites (message@location) → count, for the evidence
pub fn traps_take() -> std::collections::BTreeMap<String, u64> {
    TRAPS.with(|t| std::mem::take(&mut *t.borrow_mut()))
}

fn shorten_loc(loc: &str) -> String {
    // keep the path below the repo / registry root
    if let Some(i) = loc.find("/repo/") {
        loc[i + 6..].to_string()
    } else if let Some(i) = loc.find("registry/src/") {
        let rest = &loc[i + 13..];
        rest.splitn(2, '/').nth(1).unwrap_or(rest).to_string()
    } else {
        loc.to_string()
    }
}

pub struct Trap {
    inner: Box<dyn Contract<Empty>>,
}

impl Trap {
    pub fn new(inner: Box<dyn Contract<Empty>>) -> Box<dyn Contract<Empty>> {
        Box::new(Trap { inner })
    }
}

fn begin(
    contract: &str,
    entry: &'static str,
    sender: &str,
    funds: &[cosmwasm_std::Coin],
    msg: &[u8],
) -> Option<usize> {
    let on = LOG_ON.with(|l| *l.borrow());
    if !on {
        return None;
    }
    if entry == "query" && !LOG_QUERIES.with(|l| *l.borrow()) {
        return None;
    }
    let depth = DEPTH.with(|d| {
        let mut d = d.borrow_mut();
        *d += 1;
        *d
    });
    let seq = SEQ.with(|s| {
        let mut s = s.borrow_mut();
        *s += 1;
        *s
    });
    LOG.with(|l| {
        let mut l = l.borrow_mut();
        l.push(CallRec {
            seq,
            depth,
            contract: contract.to_string(),
            entry,
            sender: sender.to_string(),
            funds: funds.to_vec(),
            msg: msg.to_vec(),
            outcome: 255,
            err: String::new(),
            attrs: vec![],
        });
        Some(l.len() - 1)
    })
}

fn end_resp(idx: Option<usize>, r: &AnyResult<Response<Empty>>, trapped: bool) {
    let Some(idx) = idx else { return };
    DEPTH.with(|d| {
        let mut d = d.borrow_mut();
        *d = d.saturating_sub(1);
    });
    LOG.with(|l| {
        let mut l = l.borrow_mut();
        if let Some(rec) = l.get_mut(idx) {
            match r {
                Ok(resp) => {
                    rec.outcome = 0;
                    rec.attrs = resp
                        .attributes
                        .iter()
                        .map(|a| (a.key.clone(), a.value.clone()))
                        .collect();
                }
                Err(e) => {
                    rec.outcome = if trapped { 2 } else { 1 };
                    rec.err = format!("{e:#}");
                }
            }
        }
    });
}

fn end_query(idx: Option<usize>, r: &AnyResult<Binary>, trapped: bool) {
    let Some(idx) = idx else { return };
    DEPTH.with(|d| {
        let mut d = d.borrow_mut();
        *d = d.saturating_sub(1);
    });
    LOG.with(|l| {
        let mut l = l.borrow_mut();
        if let Some(rec) = l.get_mut(idx) {
            match r {
                Ok(_) => rec.outcome = 0,
                Err(e) => {
                    rec.outcome = if trapped { 2 } else { 1 };
                    rec.err = format!("{e:#}");
                }
            }
        }
    });
}

fn trap_err() -> anyhow::Error {
    let (msg, loc) = LAST_PANIC.with(|p| p.borrow().clone());
    let site = format!("{} @ {}", msg, shorten_loc(&loc));
    TRAPS.with(|t| *t.borrow_mut().entry(site.clone()).or_insert(0) += 1);
    anyhow!("TRAP: {site}")
}

impl Contract<Empty> for Trap {
    fn execute(
        &self,
        deps: DepsMut<Empty>,
        env: Env,
        info: MessageInfo,
        msg: Vec<u8>,
    ) -> AnyResult<Response<Empty>> {
        let idx = begin(env.contract.address.as_str(), "execute", info.sender.as_str(), &info.funds, &msg);
        let r = catch_unwind(AssertUnwindSafe(|| self.inner.execute(deps, env, info, msg)));
        let (r, trapped) = match r {
            Ok(r) => (r, false),
            Err(_) => (Err(trap_err()), true),
        };
        end_resp(idx, &r, trapped);
        r
    }

    fn instantiate(
        &self,
        deps: DepsMut<Empty>,
        env: Env,
        info: MessageInfo,
        msg: Vec<u8>,
    ) -> AnyResult<Response<Empty>> {
        let idx = begin(env.contract.address.as_str(), "instantiate", info.sender.as_str(), &info.funds, &msg);
        let r = catch_unwind(AssertUnwindSafe(|| self.inner.instantiate(deps, env, info, msg)));
        let (r, trapped) = match r {
            Ok(r) => (r, false),
            Err(_) => (Err(trap_err()), true),
        };
        end_resp(idx, &r, trapped);
        r
    }

    fn query(&self, deps: Deps<Empty>, env: Env, msg: Vec<u8>) -> AnyResult<Binary> {
        let idx = begin(env.contract.address.as_str(), "query", "", &[], &msg);
        let r = catch_unwind(AssertUnwindSafe(|| self.inner.query(deps, env, msg)));
        let (r, trapped) = match r {
            Ok(r) => (r, false),
            Err(_) => (Err(trap_err()), true),
        };
        end_query(idx, &r, trapped);
        r
    }

    fn sudo(&self, deps: DepsMut<Empty>, env: Env, msg: Vec<u8>) -> AnyResult<Response<Empty>> {
        self.inner.sudo(deps, env, msg)
    }

    fn reply(&self, deps: DepsMut<Empty>, env: Env, msg: Reply) -> AnyResult<Response<Empty>> {
        let id = msg.id.to_string();
        let idx = begin(env.contract.address.as_str(), "reply", "", &[], id.as_bytes());
        let r = catch_unwind(AssertUnwindSafe(|| self.inner.reply(deps, env, msg)));
        let (r, trapped) = match r {
            Ok(r) => (r, false),
            Err(_) => (Err(trap_err()), true),
        };
        end_resp(idx, &r, trapped);
        r
    }

    fn migrate(&self, deps: DepsMut<Empty>, env: Env, msg: Vec<u8>) -> AnyResult<Response<Empty>> {
        let idx = begin(env.contract.address.as_str(), "migrate", "", &[], &msg);
        let r = catch_unwind(AssertUnwindSafe(|| self.inner.migrate(deps, env, msg)));
        let (r, trapped) = match r {
            Ok(r) => (r, false),
            Err(_) => (Err(trap_err()), true),
        };
        end_resp(idx, &r, trapped);
        r
    }
}
