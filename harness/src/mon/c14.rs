//! C14 — quotes are honest: simulation == execution. Rides on pair (CP + stable), trio, vault and
//! router workloads; only C14-tagged verdicts decide this check.
use crate::mon::pools::Kind;
use crate::rt::{run_shards, Acc, CheckMeta, Ctx};

pub fn run(ctx: &Ctx) -> (CheckMeta, Acc) {
    let n = ctx.tier.pick(32, 1000);
    let total = run_shards(ctx, 16, |sh, acc| {
        let rp = ctx.replay.as_ref().map(|r| r.history);
        let sel = |lo: u64| rp.map(|h| h >= lo && h < lo + 100_000_000).unwrap_or(true);
        if sel(1_000_000_000) {
            crate::mon::pools::run_histories(ctx, sh, acc, n, ctx.tier.pick(80, 200), "C14", Kind::Cp);
        }
        if sel(1_100_000_000) {
            crate::mon::pools::run_histories(ctx, sh, acc, n / 2, ctx.tier.pick(80, 150), "C14", Kind::Stable);
        }
        if sel(1_200_000_000) {
            crate::mon::c04::run_trio_histories(ctx, sh, acc, n / 2, ctx.tier.pick(100, 250), "C14");
        }
        if sel(1_300_000_000) {
            crate::mon::c05::run_vault_histories(ctx, sh, acc, n, ctx.tier.pick(80, 200));
        }
        if sel(1_600_000_000) {
            crate::mon::routerw::run_router_histories(ctx, sh, acc, n, ctx.tier.pick(60, 200));
        }
    });
    let meta = CheckMeta {
        level: "exploration",
        rule: "before every swap of the pair (constant product + stableswap), trio and router workloads the driver queries the simulation in the same state and block, then executes: Q1 every field of the simulation == the swap's attributes, Q2 receiver's balance delta == return amount and the sender paid the offer, Q3 pending-fee delta == protocol fee (other assets untouched), Q4 total supply of the ask asset dropped by the burn fee, Q5 pool balances moved by exactly offer / return+burn; native and cw20 offers, states with non-zero pending fees, donations, fee changes. Q6: vault Share{lp} == payout of withdrawing exactly lp. Q7: SimulateSwapOperations == receiver's balance delta for 1-3 hop routes over chains of CP / stableswap pairs of mixed asset kinds (router balances are zero beforehand: donations to the router are excluded), Q8 router retains nothing.".to_string(),
        assumptions: vec!["router workload never donates to the router".into()],
        obligations: vec!["check.C14.swap".into(), "check.C14.trio-swap".into(), "check.C14.share".into(), "check.C14.route".into(), "route.ok.1-hop".into(), "route.ok.2-hop".into(), "route.ok.3-hop".into()],
    };
    (meta, total)
}
