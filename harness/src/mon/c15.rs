//! C15 — slippage limits and minimum-receive. Threshold-dense workload on real pairs (both
//! directions of every check are judged by the generic monitors in pools.rs / c04.rs / routerw.rs).
use crate::mon::pools::*;
use crate::rng::{hash_str, Rng};
use crate::rt::{run_shards, Acc, CheckMeta, Ctx};
use crate::wide::*;
use serde_json::json;

fn threshold_history(acc: &mut Acc, r: &mut Rng, kind: Kind, variant: u64, steps: u64) {
    let mut wd = build_pair_world(r, kind, variant);
    let base = r.range128(1_000_000_000, 1_000_000_000_000_000_000);
    let d0 = match kind {
        // one constant-product world in five is extremely lopsided in base units (one side scarce, e.g. a
        // 0-decimals asset against an 18-decimals one): the pool ratio is near or below the 1e-18 resolution
        Kind::Cp if variant % 5 == 4 => {
            let small = r.range128(1_000, 10_000_000);
            let huge = r.range128(1_000_000_000_000_000_000_000_000, 100_000_000_000_000_000_000_000_000_000);
            if r.chance(1, 2) { [small, huge] } else { [huge, small] }
        }
        Kind::Cp => [base, r.range128(base / 3, base * 3)],
        Kind::Stable => {
            let one = [10u128.pow(wd.pair.decimals[0] as u32), 10u128.pow(wd.pair.decimals[1] as u32)];
            let whole = r.range128(1_000, 1_000_000_000);
            [whole * one[0], whole * one[1]]
        }
    };
    monitored_provide(acc, &mut wd, 0, d0, None, None);
    for _ in 0..steps {
        let Ok(obs) = wd.observe() else { break };
        if obs.s == 0 {
            break;
        }
        let user = r.idx(4);
        if r.chance(3, 4) {
            // ---- swap with a spread limit placed on / next to the realised ratio
            let dir = r.idx(2);
            let amount = match r.below(5) {
                0 => r.amount(1000),
                1 => r.near(obs.r[dir], 1u128 << 100),
                _ => (obs.r[dir] / r.range128(2, 1000)).max(1),
            };
            let Ok(sim) = wd.simulate(dir, amount) else {
                acc.count("c15.simulation-failed");
                continue;
            };
            let gross = w(sim.return_amount.u128()) + w(sim.swap_fee_amount.u128()) + w(sim.protocol_fee_amount.u128()) + w(sim.burn_fee_amount.u128());
            let spread = w(sim.spread_amount.u128());
            let (belief, rho): (Option<u128>, Option<u128>) = if r.chance(1, 3) {
                // belief price around the realised price: p = offer / (gross * k)
                let k = r.range128(900, 1100);
                let denom = gross * w(k);
                if denom.is_zero() {
                    (None, None)
                } else {
                    let p = w(amount) * w(ONE18) * w(1000) / denom;
                    match to_u128(&p) {
                        Some(p) if p > 0 => {
                            let inv = w(ONE18) * w(ONE18) / w(p);
                            let expected = w(amount) * inv / w(ONE18);
                            let rho = if gross < expected && !expected.is_zero() { to_u128(&((expected - gross) * w(ONE18) / expected)) } else { Some(0) };
                            (Some(p), rho)
                        }
                        _ => (None, None),
                    }
                }
            } else {
                let den = gross + spread;
                if den.is_zero() {
                    (None, None)
                } else {
                    (None, to_u128(&(spread * w(ONE18) / den)))
                }
            };
            let half = ONE18 / 2;
            let max_spread = match (rho, r.below(10)) {
                (Some(x), 0) => Some(x),
                (Some(x), 1) => Some(x.saturating_sub(1)),
                (Some(x), 2) => Some(x + 1),
                (_, 3) => Some(half),
                (_, 4) => Some(half - 1),
                (_, 5) => Some(half + 1),
                (_, 6) => None,
                (_, 7) => Some(ONE18 / 100),
                (_, 8) => Some(ONE18 + r.below128(ONE18)),
                (Some(x), _) => Some(x.saturating_add(r.below128(3)).saturating_sub(1)),
                _ => Some(half),
            };
            acc.count("c15.threshold-swap");
            if let (Some(x), Some(s)) = (rho, max_spread) {
                if x == s || x + 1 == s || x == s + 1 {
                    acc.count("c15.swap-limit-within-1e-18-of-realised-ratio");
                }
            }
            let pl = SwapPlan { user, dir, amount, belief, max_spread, to: if r.chance(1, 5) { Some(r.idx(4)) } else { None } };
            monitored_swap(acc, &mut wd, &pl);
        } else {
            // ---- deposit with a tolerance placed around the realised ratio bound
            let k = r.range128(2, 1000);
            let skew_num = r.range128(900, 1100);
            let d = [(obs.r[0] / k).max(1), (to_u128(&(w(obs.r[1] / k) * w(skew_num) / w(1000))).unwrap_or(1)).max(1)];
            // tolerance near 1 - (pool ratio / deposit ratio) for the constant-product rule
            let t = {
                let dep = w(d[0]) * w(ONE18) / w(d[1]);
                let pool = w(obs.r[0]) * w(ONE18) / w(obs.r[1].max(1));
                let (hi, lo) = if dep > pool { (dep, pool) } else { (pool, dep) };
                let t = if hi.is_zero() { U1024::zero() } else { w(ONE18) - lo * w(ONE18) / hi };
                to_u128(&t).unwrap_or(0)
            };
            let slip = match r.below(8) {
                0 => Some(t),
                1 => Some(t.saturating_sub(1)),
                2 => Some(t + 1),
                3 => Some(0),
                4 => Some(ONE18),
                5 => Some(ONE18 + 1),
                6 => None,
                _ => Some(t.saturating_add(r.below128(1000)).saturating_sub(500)),
            };
            acc.count("c15.threshold-deposit");
            wd.reverse_order = r.chance(1, 2);
            if wd.reverse_order {
                acc.count("provide.assets-listed-in-reverse-pool-order");
                wd.log("   (next deposit lists its assets in reverse pool order)".to_string());
            }
            monitored_provide(acc, &mut wd, user, d, None, slip);
            wd.reverse_order = false;
        }
        acc.evals += 1;
        acc.class_only(&[kind as u64, variant % 4, mag_class(obs.r[0]) / 2, r.below(1)]);
    }
    acc.sample(|| json!({"kind": format!("{kind:?}"), "history_tail": wd.tail(8)}));
}

pub fn run(ctx: &Ctx) -> (CheckMeta, Acc) {
    let n = ctx.tier.pick(48, 1500);
    let steps = ctx.tier.pick(80, 250);
    let ph = hash_str("C15");
    let total = run_shards(ctx, 16, |sh, acc| {
        let rp = ctx.replay.as_ref().map(|r| r.history);
        let sel = |lo: u64| rp.map(|h| h >= lo && h < lo + 100_000_000).unwrap_or(true);
        for h in 0..ctx.scaled(n) {
            let hid = 1_700_000_000 + h;
            if rp.map(|x| x != hid).unwrap_or(false) {
                continue;
            }
            acc.history = hid;
            let mut r = Rng::from_parts(&[ctx.seed, ph, sh, h]);
            let kind = if h % 3 == 2 { Kind::Stable } else { Kind::Cp };
            threshold_history(acc, &mut r, kind, sh + h, steps);
        }
        if sel(1_200_000_000) {
            crate::mon::c04::run_trio_histories(ctx, sh, acc, (n / 4).max(1), ctx.tier.pick(100, 250), "C15");
        }
        if sel(1_600_000_000) {
            crate::mon::routerw::run_router_histories(ctx, sh, acc, n, ctx.tier.pick(60, 200));
        }
    });
    let meta = CheckMeta {
        level: "exploration",
        rule: "threshold-dense histories on real constant-product and stableswap pairs: for every swap the realised ratio rho (spread/(gross+spread), or (expected-gross)/expected with a belief price placed within +-10% of the realised price) is computed from the Simulation with independent 18-decimal integer math and max_spread is drawn from {rho-1e-18, rho, rho+1e-18, 0.5-1e-18, 0.5, 0.5+1e-18, None, 0.01, >1, ...}; deposits use a tolerance on / next to the documented bound. Both directions are judged on every outcome: L1/L2 an accepted swap satisfied its limit (default 1%, cap 50%), L3 a swap rejected with the slippage error really exceeded it, L4/L5 likewise for deposit tolerances, L6/L7 router minimum_receive = simulated passes and simulated+1 is rejected (receivers with pre-existing balances, 1-3 hops), plus the trio swaps of C04's histories. Comparisons are made at the interface's own 1e-18 resolution.".to_string(),
        assumptions: vec!["the (offer/p)(1-s) - 1 unit form of the belief-price bound is judged only where the 18-decimal resolution is finer than one base unit (expected <= 1e18)".into()],
        obligations: vec!["check.C15.swap-accepted".into(), "check.C15.swap-rejected-for-slippage".into(), "c15.swap-limit-within-1e-18-of-realised-ratio".into(), "check.C15.deposit-accepted".into(), "check.C15.deposit-rejected-for-slippage".into(), "check.C15.route-accepted-with-minimum-receive".into(), "check.C15.route-rejected-for-minimum-receive".into(), "check.C15.trio-swap-accepted".into(), "route.ok.receiver-with-pre-existing-balance".into(), "provide.assets-listed-in-reverse-pool-order".into()],
    };
    (meta, total)
}
