//! C02 — constant-product swap: exact price, exact fee split, total, no free round trip.
//! Pure monitor over `verif_hooks::helpers::compute_swap` + end-to-end part shared with C01 (pools.rs).

use crate::rng::{hash_str, Rng};
use crate::rt::{run_shards, Acc, CheckMeta, Ctx};
use crate::wide::*;
use crate::world::pool_fee;
use cosmwasm_std::Uint128;
use serde_json::json;
use std::panic::{catch_unwind, AssertUnwindSafe};
use terraswap_pair::verif_hooks::helpers::compute_swap;
use white_whale_std::pool_network::asset::PairType;

pub struct Out {
    pub ret: u128,
    pub spread: u128,
    pub swap_fee: u128,
    pub protocol_fee: u128,
    pub burn_fee: u128,
}

pub enum Res {
    Ok(Out),
    Err(String),
    Panic(String),
}

pub fn call(op: u128, ask: u128, offer: u128, fees: [u128; 3], pt: &PairType, d0: u8, d1: u8) -> Res {
    let r = catch_unwind(AssertUnwindSafe(|| {
        compute_swap(Uint128::new(op), Uint128::new(ask), Uint128::new(offer), pool_fee(fees), pt, d0, d1)
    }));
    match r {
        Ok(Ok(s)) => Res::Ok(Out {
            ret: s.return_amount.u128(),
            spread: s.spread_amount.u128(),
            swap_fee: s.swap_fee_amount.u128(),
            protocol_fee: s.protocol_fee_amount.u128(),
            burn_fee: s.burn_fee_amount.u128(),
        }),
        Ok(Err(e)) => Res::Err(format!("{e:?}")),
        Err(_) => {
            let loc = crate::trap::last_panic_location();
            Res::Panic(loc)
        }
    }
}

fn gen_triple(r: &mut Rng) -> (u128, u128, u128) {
    let m = u128::MAX;
    match r.below(10) {
        // extreme ratios: ask/op beyond 1e18 both ways
        0 => {
            let small = r.amount(1_000_000);
            let big = r.amount(m).max(1u128 << 64);
            let offer = if r.chance(1, 2) { r.amount(m) } else { r.near(big, m) };
            if r.chance(1, 2) {
                (big, small, offer)
            } else {
                (small, big, offer)
            }
        }
        // pools of 1
        1 => (r.amount(3), r.amount(3), r.amount(m)),
        // offers near 2^128
        2 => (r.amount(m), r.amount(m), m - r.below128(4)),
        // realistic
        3 | 4 => {
            let op = r.amount(1u128 << 100);
            let ask = r.near(op, m);
            (op, ask, r.near(op, m))
        }
        _ => (r.amount(m), r.amount(m), r.amount(m)),
    }
}

pub fn check_case(acc: &mut Acc, op: u128, ask: u128, offer: u128, fees: [u128; 3], d0: u8, d1: u8, prop: &str) {
    let pt = PairType::ConstantProduct;
    let gross = w(ask) * w(offer) / (w(op) + w(offer));
    let f_sw = mul_share_floor(gross, fees[1]);
    let f_pr = mul_share_floor(gross, fees[0]);
    let f_bu = mul_share_floor(gross, fees[2]);
    let rate = w(ask) * w(ONE18) / w(op);
    let t = w(offer) * rate / w(ONE18);
    let spread_ref = if t >= gross { t - gross } else { U1024::zero() };
    let all_fit = fits128(&gross) && fits128(&spread_ref);
    let detail = |extra: serde_json::Value| {
        json!({"offer_pool": op.to_string(), "ask_pool": ask.to_string(), "offer": offer.to_string(),
               "fees_protocol_swap_burn_atomics": [fees[0].to_string(), fees[1].to_string(), fees[2].to_string()],
               "decimals": [d0, d1], "oracle_gross": gross.to_string(), "extra": extra})
    };
    let res = call(op, ask, offer, fees, &pt, d0, d1);
    let fee_class = (fees[0] == 0) as u64 | ((fees[1] == 0) as u64) << 1 | ((fees[2] == 0) as u64) << 2
        | ((fees[0] + fees[1] + fees[2] > ONE18 / 2) as u64) << 3;
    let ratio_class = {
        let a = 128 - ask.leading_zeros() as i64;
        let b = 128 - op.leading_zeros() as i64;
        ((a - b + 128) / 16) as u64
    };
    let outcome = match &res {
        Res::Ok(_) => 0u64,
        Res::Err(_) => 1,
        Res::Panic(_) => 2,
    };
    acc.case(&[mag_class(op) / 2, mag_class(offer) / 2, ratio_class, fee_class, outcome, (t < gross) as u64]);
    match res {
        Res::Panic(loc) => {
            acc.count("pure.panic");
            let class = if t < gross { "spread-underflow(offer*rate<return)" } else { "other" };
            acc.violation(prop, &format!("C02.T/panic/{class}"), detail(json!({"panic": loc})));
        }
        Res::Err(e) => {
            acc.count("pure.err");
            if all_fit {
                acc.violation(prop, "C02.T/err-while-result-fits", detail(json!({"err": e})));
            } else {
                acc.count("pure.err_legit_overflow");
            }
        }
        Res::Ok(o) => {
            acc.count("pure.ok");
            acc.count("check.E");
            let sum = w(o.ret) + w(o.swap_fee) + w(o.protocol_fee) + w(o.burn_fee);
            if sum != gross {
                acc.violation(prop, "C02.E/sum!=gross", detail(json!({"ret": o.ret.to_string(), "sum": sum.to_string()})));
            }
            if w(o.swap_fee) != f_sw {
                acc.violation(prop, "C02.E/swap-fee", detail(json!({"got": o.swap_fee.to_string(), "want": f_sw.to_string()})));
            }
            if w(o.protocol_fee) != f_pr {
                acc.violation(prop, "C02.E/protocol-fee", detail(json!({"got": o.protocol_fee.to_string(), "want": f_pr.to_string()})));
            }
            if w(o.burn_fee) != f_bu {
                acc.violation(prop, "C02.E/burn-fee", detail(json!({"got": o.burn_fee.to_string(), "want": f_bu.to_string()})));
            }
            if o.ret >= ask {
                acc.violation(prop, "C02.E/return>=ask-reserve", detail(json!({"ret": o.ret.to_string()})));
            }
            acc.slack("ask_minus_return", (ask - o.ret.min(ask)) as f64, || format!("op={op} ask={ask} offer={offer}"));
            // decimals must not matter
            let (e0, e1) = (d1.wrapping_add(3) % 19, d0.wrapping_add(7) % 19);
            if let Res::Ok(o2) = call(op, ask, offer, fees, &pt, e0, e1) {
                acc.count("check.decimals-independent");
                if o2.ret != o.ret || o2.swap_fee != o.swap_fee || o2.protocol_fee != o.protocol_fee || o2.burn_fee != o.burn_fee || o2.spread != o.spread {
                    acc.violation(prop, "C02.E/depends-on-decimals", detail(json!({"other_decimals": [e0, e1]})));
                }
            } else {
                acc.violation(prop, "C02.E/depends-on-decimals", detail(json!({"other_decimals": [e0, e1], "second_call_failed": true})));
            }
            // round trip with the contract's own state transition
            if o.ret > 0 {
                let op2 = w(ask) - gross + w(o.swap_fee); // new reserve of the original ask asset
                let ask2 = w(op) + w(offer);
                if fits128(&op2) && fits128(&ask2) && !op2.is_zero() {
                    match call(op2.low_u128(), ask2.low_u128(), o.ret, fees, &pt, d1, d0) {
                        Res::Ok(b) => {
                            acc.count("check.R");
                            if b.ret > offer {
                                acc.violation(prop, "C02.R/round-trip-profit", detail(json!({"ret": o.ret.to_string(), "back": b.ret.to_string()})));
                            }
                            acc.slack("roundtrip_offer_minus_back", offer as f64 - b.ret as f64, || format!("op={op} ask={ask} offer={offer} fees={fees:?}"));
                        }
                        Res::Panic(loc) => {
                            let bg = ask2 * w(o.ret) / (op2 + w(o.ret));
                            let rate2 = ask2 * w(ONE18) / op2;
                            let t2 = w(o.ret) * rate2 / w(ONE18);
                            let class = if t2 < bg { "spread-underflow(offer*rate<return)" } else { "other" };
                            acc.violation(prop, &format!("C02.T/panic/{class}"), detail(json!({"panic": loc, "leg": "back", "op2": op2.to_string(), "ask2": ask2.to_string(), "offer2": o.ret.to_string()})));
                        }
                        Res::Err(_) => {
                            acc.count("check.R.back-err");
                        }
                    }
                }
            }
            acc.sample(|| json!({"offer_pool": op.to_string(), "ask_pool": ask.to_string(), "offer": offer.to_string(), "fees": fees.iter().map(|f| f.to_string()).collect::<Vec<_>>(), "return": o.ret.to_string(), "gross_oracle": gross.to_string()}));
        }
    }
}

pub fn run(ctx: &Ctx) -> (CheckMeta, Acc) {
    let per_shard = ctx.scaled(ctx.tier.pick(1_000_000, 100_000_000));
    let n_shards = 16;
    let ph = hash_str("C02");
    let total = run_shards(ctx, n_shards, |sh, acc| {
        let (lo, hi) = match &ctx.replay {
            Some(r) if r.history >= 1_000_000_000 => (0, 0),
            Some(r) => (r.history, r.history + 1),
            None => (0, per_shard),
        };
        for i in lo..hi {
            acc.history = i;
            let mut r = Rng::from_parts(&[ctx.seed, ph, sh, i]);
            let (op, ask, offer) = gen_triple(&mut r);
            let fees = r.fee_triple();
            let d0 = r.range(0, 18) as u8;
            let d1 = r.range(0, 18) as u8;
            check_case(acc, op, ask, offer, fees, d0, d1, "C02");
        }
        // end-to-end part: a few real constant-product pool histories (shared driver with C01)
        if ctx.replay.as_ref().map(|r| r.history >= 1_000_000_000).unwrap_or(true) {
            if !ctx.pure_only {
                crate::mon::pools::run_cp_histories(ctx, sh, acc, ctx.tier.pick(6, 400), ctx.tier.pick(60, 150), "C02");
            }
        }
    });
    let meta = CheckMeta {
        level: "exploration",
        rule: "pure: (offer_pool, ask_pool, offer) in [1,2^128)^3 boundary-biased (ratios beyond 1e18 both ways, pools of 1, offers near 2^128, realistic), fee triples incl. all-zero and sum=1-1e-18, random decimals; every case compared with an independent U1024 oracle (gross, fee split, totality, decimals-independence, there-and-back with the contract's own state transition). Distinct = distinct (magnitude of offer_pool, magnitude of offer, ask/offer_pool ratio bucket, fee class, outcome class, spread-underflow class) tuples. End-to-end: real pair histories via pools.rs (E and R on real transfers).".to_string(),
        assumptions: vec![
            "rustc, cosmwasm-std Uint256/Decimal256 are the system under test together with the pair helpers; the oracle uses the `uint` crate U1024 only".to_string(),
            "Err(SwapOverflowError) is accepted iff the reported spread field itself exceeds 128 bits".to_string(),
        ],
        obligations: vec!["pure.ok".into(), "check.R".into(), "check.E".into(), "check.E.simulation".into()],
    };
    (meta, total)
}
