//! C04 — three-asset stableswap pool: solvency (P1), D* per LP (P2), there-and-back (P3),
//! curve output (P4), effective amplification (P5), ramp admission (P6).
//! Also hosts the trio parts of C07 (fee ledger), C14 (simulation == execution) and C15 (spread).

use crate::curve;
use crate::rng::{hash_str, Rng};
use crate::rt::{run_shards, Acc, CheckMeta, Ctx};
use crate::wide::*;
use crate::world::*;
use cosmwasm_std::{coin, Addr, Coin, Uint128};
use cw_multi_test::App;
use serde_json::{json, Value};
use stableswap_3pool::verif_hooks::curve::StableSwap;
use std::panic::{catch_unwind, AssertUnwindSafe};
use white_whale_std::pool_network::asset::Asset;
use white_whale_std::pool_network::trio as tm;

pub const MAXAMT: u128 = 1u128 << 110;
const FUNDS: u128 = 1u128 << 124;

#[derive(Clone, Debug, Default)]
pub struct Obs {
    pub r: [u128; 3],
    pub s: u128,
    pub pend: [u128; 3],
    pub alltime: [u128; 3],
    pub burned: [u128; 3],
    pub bal: [u128; 3],
    pub lp_locked: u128,
    pub supply: [u128; 3],
}

#[derive(Clone, Debug)]
pub struct AmpCfg {
    pub a0: u64,
    pub a1: u64,
    pub t0: u64,
    pub t1: u64,
}

/// my own linear formula (floor toward A0)
pub fn amp_at(c: &AmpCfg, t: u64) -> u64 {
    if t >= c.t1 || c.t1 <= c.t0 {
        return c.a1;
    }
    let dt = (t - c.t0) as u128;
    let range = (c.t1 - c.t0) as u128;
    if c.a1 >= c.a0 {
        c.a0 + (((c.a1 - c.a0) as u128 * dt) / range) as u64
    } else {
        c.a0 - (((c.a0 - c.a1) as u128 * dt) / range) as u64
    }
}

pub struct TrioWorld {
    pub app: App,
    pub core: PoolCore,
    pub trio: TrioHandle,
    pub fees: [u128; 3],
    pub users: Vec<Addr>,
    pub tokens: Vec<Addr>,
    pub charged: [u128; 3],
    pub sent: [u128; 3],
    pub burned: [u128; 3],
    pub first_done: bool,
    pub ops: Vec<String>,
}

fn fees_of(resp: &tm::ProtocolFeesResponse, assets: &[AssetRef; 3]) -> [u128; 3] {
    let mut out = [0u128; 3];
    for f in &resp.fees {
        for i in 0..3 {
            if f.info == assets[i].info() {
                out[i] = f.amount.u128();
            }
        }
    }
    out
}

fn u(s: &str) -> u128 {
    s.parse::<u128>().unwrap_or(u128::MAX)
}

impl TrioWorld {
    pub fn observe(&self) -> Result<Obs, String> {
        let app = &self.app;
        let p = &self.trio;
        let pool: tm::PoolResponse = query(app, &p.addr, &tm::QueryMsg::Pool {})?;
        let mut o = Obs::default();
        for a in &pool.assets {
            for i in 0..3 {
                if a.info == p.assets[i].info() {
                    o.r[i] = a.amount.u128();
                }
            }
        }
        o.s = pool.total_share.u128();
        let pf: tm::ProtocolFeesResponse = query(app, &p.addr, &tm::QueryMsg::ProtocolFees { asset_id: None, all_time: None })?;
        o.pend = fees_of(&pf, &p.assets);
        let af: tm::ProtocolFeesResponse = query(app, &p.addr, &tm::QueryMsg::ProtocolFees { asset_id: None, all_time: Some(true) })?;
        o.alltime = fees_of(&af, &p.assets);
        let bf: tm::ProtocolFeesResponse = query(app, &p.addr, &tm::QueryMsg::BurnedFees { asset_id: None })?;
        o.burned = fees_of(&bf, &p.assets);
        for i in 0..3 {
            o.bal[i] = p.assets[i].balance(app, &p.addr);
            o.supply[i] = p.assets[i].supply(app);
        }
        o.lp_locked = bal_cw20(app, &p.lp, &p.addr);
        Ok(o)
    }
    pub fn amp_cfg(&self) -> AmpCfg {
        let c: tm::Config = query(&self.app, &self.trio.addr, &tm::QueryMsg::Config {}).unwrap();
        AmpCfg { a0: c.initial_amp, a1: c.future_amp, t0: c.initial_amp_block, t1: c.future_amp_block }
    }
    pub fn log(&mut self, s: String) {
        if self.ops.len() >= 300 {
            self.ops.remove(0);
        }
        self.ops.push(s);
    }
    pub fn tail(&self, n: usize) -> Vec<String> {
        let k = self.ops.len().saturating_sub(n);
        self.ops[k..].to_vec()
    }
    pub fn provide(&mut self, user: usize, d: [u128; 3], receiver: Option<&Addr>, slip: Option<u128>) -> Result<cw_multi_test::AppResponse, String> {
        let usr = self.users[user].clone();
        let mut funds: Vec<Coin> = vec![];
        for i in 0..3 {
            if let AssetRef::Native(dn) = &self.trio.assets[i] {
                if d[i] > 0 {
                    funds.push(coin(d[i], dn));
                }
            }
        }
        funds.sort_by(|a, b| a.denom.cmp(&b.denom));
        let msg = tm::ExecuteMsg::ProvideLiquidity {
            assets: [self.trio.assets[0].asset(d[0]), self.trio.assets[1].asset(d[1]), self.trio.assets[2].asset(d[2])],
            slippage_tolerance: slip.map(dec),
            receiver: receiver.map(|r| r.to_string()),
        };
        let pa = self.trio.addr.clone();
        exec(&mut self.app, &usr, &pa, &msg, &funds)
    }
    pub fn withdraw(&mut self, user: usize, lp: u128) -> Result<cw_multi_test::AppResponse, String> {
        let usr = self.users[user].clone();
        let (lpt, pa) = (self.trio.lp.clone(), self.trio.addr.clone());
        cw20_send(&mut self.app, &lpt, &usr, &pa, lp, &tm::Cw20HookMsg::WithdrawLiquidity {})
    }
    pub fn swap(&mut self, user: usize, from: usize, to_i: usize, amount: u128, belief: Option<u128>, max_spread: Option<u128>, to: Option<&Addr>) -> Result<cw_multi_test::AppResponse, String> {
        let usr = self.users[user].clone();
        let pa = self.trio.addr.clone();
        let ask = self.trio.assets[to_i].info();
        match self.trio.assets[from].clone() {
            AssetRef::Native(dn) => exec(
                &mut self.app,
                &usr,
                &pa,
                &tm::ExecuteMsg::Swap { offer_asset: Asset { info: AssetRef::Native(dn.clone()).info(), amount: Uint128::new(amount) }, ask_asset: ask, belief_price: belief.map(dec), max_spread: max_spread.map(dec), to: to.map(|t| t.to_string()) },
                &[coin(amount, dn)],
            ),
            AssetRef::Cw20(t) => cw20_send(&mut self.app, &t, &usr, &pa, amount, &tm::Cw20HookMsg::Swap { ask_asset: ask, belief_price: belief.map(dec), max_spread: max_spread.map(dec), to: to.map(|t| t.to_string()) }),
        }
    }
    pub fn simulate(&self, from: usize, to_i: usize, amount: u128) -> Result<tm::SimulationResponse, String> {
        query(&self.app, &self.trio.addr, &tm::QueryMsg::Simulation { offer_asset: self.trio.assets[from].asset(amount), ask_asset: self.trio.assets[to_i].asset(0) })
    }
    pub fn update(&mut self, fees: Option<[u128; 3]>, ramp: Option<(u64, u64)>) -> Result<cw_multi_test::AppResponse, String> {
        let (o, f, pa) = (self.core.owner.clone(), self.core.factory.clone(), self.trio.addr.clone());
        exec(
            &mut self.app,
            &o,
            &f,
            &white_whale_std::pool_network::factory::ExecuteMsg::UpdateTrioConfig {
                trio_addr: pa.to_string(),
                owner: None,
                fee_collector_addr: None,
                pool_fees: fees.map(trio_fee),
                feature_toggle: None,
                amp_factor: ramp.map(|(a, b)| tm::RampAmp { future_a: a, future_block: b }),
            },
            &[],
        )
    }
}

pub fn build_trio_world(r: &mut Rng, variant: u64) -> TrioWorld {
    let owner = Addr::unchecked("owner");
    let users: Vec<Addr> = vec![Addr::unchecked("user0"), Addr::unchecked("user1"), Addr::unchecked("user2"), Addr::unchecked("attacker")];
    let mask = variant % 8;
    let natives = [mask & 1 == 0, mask & 2 == 0, mask & 4 == 0];
    let denoms = ["uaaa", "ubbb", "uccc"];
    let mut balances = vec![];
    for u in users.iter().chain(std::iter::once(&owner)) {
        let mut c = vec![];
        for i in 0..3 {
            if natives[i] {
                c.push(coin(FUNDS, denoms[i]));
            }
        }
        c.push(coin(FUNDS, "uzzz"));
        balances.push((u.clone(), c));
    }
    let mut app = new_app(balances);
    let core = deploy_pool_core(&mut app, &owner);
    let mut tokens = vec![];
    let mut assets = vec![];
    for i in 0..3 {
        if natives[i] {
            add_native_decimals(&mut app, &owner, &core.factory, denoms[i], 6);
            assets.push(AssetRef::Native(denoms[i].to_string()));
        } else {
            let bals: Vec<(Addr, u128)> = users.iter().chain(std::iter::once(&owner)).map(|u| (u.clone(), FUNDS)).collect();
            let t = create_cw20(&mut app, &core.codes, &owner, &format!("TK{}", ["A", "B", "C"][i]), 6, &bals, None);
            tokens.push(t.clone());
            assets.push(AssetRef::Cw20(t));
        }
    }
    let fees = r.fee_triple();
    let amp = match r.below(3) {
        0 => *r.pick(&[1u64, 2, 10, 100, 1000, 100_000, 1_000_000]),
        _ => r.range(1, 1_000_000),
    };
    let trio = create_trio(&mut app, &owner, &core.factory, [assets[0].clone(), assets[1].clone(), assets[2].clone()], trio_fee(fees), amp).expect("create trio");
    tokens.push(trio.lp.clone());
    for a in &trio.assets {
        if let AssetRef::Cw20(t) = a {
            for u in &users {
                cw20_allow(&mut app, t, u, &trio.addr, u128::MAX / 2);
            }
        }
    }
    TrioWorld { app, core, trio, fees, users, tokens, charged: [0; 3], sent: [0; 3], burned: [0; 3], first_done: false, ops: vec![] }
}

fn detail(wd: &TrioWorld, extra: Value) -> Value {
    json!({"assets": [wd.trio.assets[0].id(), wd.trio.assets[1].id(), wd.trio.assets[2].id()], "amp_cfg": format!("{:?}", wd.amp_cfg()), "block": wd.app.block_info().height,
           "fees_protocol_swap_burn": [wd.fees[0].to_string(), wd.fees[1].to_string(), wd.fees[2].to_string()], "last_ops": wd.tail(20), "extra": extra})
}

pub fn imb3(r: &[u128; 3]) -> &'static str {
    let hi = *r.iter().max().unwrap();
    let lo = (*r.iter().min().unwrap()).max(1);
    if w(hi) <= w(lo) * w(10) {
        "imb<=10"
    } else if w(hi) <= w(lo) * w(1_000_000) {
        "imb(10,1e6]"
    } else {
        "imb>1e6"
    }
}

/// imbalance class of the more unbalanced of two pool states (before / after an operation)
pub fn imb3_worst(a: &[u128; 3], b: &[u128; 3]) -> &'static str {
    let rank = |s: &str| match s {
        "imb<=10" => 0,
        "imb(10,1e6]" => 1,
        _ => 2,
    };
    let (x, y) = (imb3(a), imb3(b));
    if rank(x) >= rank(y) {
        x
    } else {
        y
    }
}

fn dstar(r: &[u128; 3], amp: u64) -> U1024 {
    curve::d_star(&[w(r[0]), w(r[1]), w(r[2])], amp, None)
}

fn fee_class(f: &[u128; 3]) -> &'static str {
    let t = f[0] + f[1] + f[2];
    if t == 0 {
        "fee=0"
    } else if t < ONE18 / 10_000 {
        "fee<1bp"
    } else {
        "fee>=1bp"
    }
}

/// magnitude class of a deviation of `units` base units in a pool whose invariant is `d` units:
/// the solver's own convergence tolerance, dust (<= max(1e-9 of the pool invariant, 1000 base units)), or large.
fn dust(units: f64, d: f64) -> &'static str {
    if units <= 4.0 {
        "within-allowance"
    } else if units <= (1e-9 * d).max(1000.0) {
        "dust"
    } else {
        "large"
    }
}

fn in_domain(r: &[u128; 3]) -> bool {
    r.iter().all(|x| *x >= 1_000_000 && *x <= MAXAMT)
}

fn check_ledger(acc: &mut Acc, wd: &TrioWorld, post: &Obs, what: &str) {
    acc.count("check.A1.trio");
    for i in 0..3 {
        let want = wd.charged[i].wrapping_sub(wd.sent[i]);
        if post.pend[i] != want {
            let class = if post.pend[i] < want { "ledger<charged-sent" } else { "ledger>charged-sent" };
            acc.violation("C07", &format!("A1/trio/{class}"), detail(wd, json!({"asset": i, "ledger": post.pend[i].to_string(), "charged": wd.charged[i].to_string(), "sent": wd.sent[i].to_string(), "step": what})));
        }
        if post.alltime[i] != wd.charged[i] {
            acc.violation("C07", "A1/trio/all-time!=sum-of-charges", detail(wd, json!({"asset": i, "step": what})));
        }
        if post.burned[i] != wd.burned[i] {
            acc.violation("C07", "A1/trio/burned-counter!=sum-of-burns", detail(wd, json!({"asset": i, "step": what})));
        }
    }
}

/// P1, P2 and C07 monotone counters after a committed step
fn check_step(acc: &mut Acc, wd: &TrioWorld, pre: &Obs, post: &Obs, amp_pre: u64, amp_post: u64, what: &str) {
    acc.count("check.P1");
    for i in 0..3 {
        if w(post.bal[i]) < w(post.r[i]) + w(post.pend[i]) {
            acc.violation("C04", "P1/balance<reserve+pending", detail(wd, json!({"asset": i, "post": format!("{post:?}"), "step": what})));
        }
        if post.alltime[i] < pre.alltime[i] || post.burned[i] < pre.burned[i] {
            acc.violation("C07", "A1/all-time-counter-decreased", detail(wd, json!({"asset": i, "step": what})));
        }
    }
    if wd.first_done {
        acc.count("check.P1.locked");
        if post.lp_locked < 3000 {
            acc.violation("C04", "P1/locked-minimum-liquidity-left-the-pool", detail(wd, json!({"post": format!("{post:?}"), "step": what})));
        }
    }
    if pre.s > 0 && post.s > 0 && in_domain(&pre.r) && in_domain(&post.r) {
        // D per LP, both evaluated at their own block's amplification.
        // A change of amp alone changes D; P2 is judged only across steps with an unchanged effective amp.
        if amp_pre == amp_post {
            acc.count("check.P2");
            let d0 = dstar(&pre.r, amp_pre);
            let d1 = dstar(&post.r, amp_post);
            let lhs = d1 * w(pre.s);
            let rhs = d0 * w(post.s);
            if lhs < rhs {
                // measured at the smaller of the two LP scales so that the +-1 of the solver is not multiplied up
                let units = diff_f64(&rhs, &lhs) / (post.s.max(pre.s) as f64);
                let rel = units / f64_of(&d0.min(d1)).max(1.0);
                let cls = dust(units, f64_of(&d0.min(d1)));
                if cls != "within-allowance" {
                    let op = what.split(' ').next().unwrap_or("");
                    acc.violation("C04", &format!("P2/{}/{}", imb3_worst(&pre.r, &post.r), cls), detail(wd, json!({"op": op, "fee_class": fee_class(&wd.fees), "pre": format!("{pre:?}"), "post": format!("{post:?}"), "D0": d0.to_string(), "D1": d1.to_string(), "drop_units": units, "rel": rel, "step": what})));
                } else {
                    acc.count("P2.drop-within-4-units");
                }
            } else {
                acc.slack(&format!("P2.rel.{}", imb3(&pre.r)), diff_f64(&lhs, &rhs) / f64_of(&rhs).max(1.0), || what.to_string());
            }
        } else {
            acc.count("P2.skipped.amp-changed");
        }
    }
}

fn eff_spread(ms: Option<u128>) -> u128 {
    ms.unwrap_or(ONE18 / 100).min(ONE18 / 2)
}

pub struct SwapPlan {
    pub user: usize,
    pub from: usize,
    pub to_i: usize,
    pub amount: u128,
    pub belief: Option<u128>,
    pub max_spread: Option<u128>,
    pub to: Option<usize>,
}

pub fn monitored_swap(acc: &mut Acc, wd: &mut TrioWorld, pl: &SwapPlan) -> bool {
    let Ok(pre) = wd.observe() else { return false };
    let (from, ask) = (pl.from, pl.to_i);
    let other = 3 - from - ask;
    let cfg = wd.amp_cfg();
    let block = wd.app.block_info().height;
    let amp = amp_at(&cfg, block);
    let sim = wd.simulate(from, ask, pl.amount);
    let receiver = pl.to.map(|t| wd.users[t].clone()).unwrap_or(wd.users[pl.user].clone());
    let rb_pre = wd.trio.assets[ask].balance(&wd.app, &receiver);
    let what = format!("swap user{} {}->{} amount={} belief={:?} max_spread={:?} to={:?}", pl.user, from, ask, pl.amount, pl.belief, pl.max_spread, pl.to);
    wd.log(what.clone());
    let res = wd.swap(pl.user, from, ask, pl.amount, pl.belief, pl.max_spread, pl.to.map(|t| wd.users[t].clone()).as_ref());
    match res {
        Err(e) => {
            acc.count("swap.rejected");
            if e.contains("Spread limit exceeded") {
                acc.count("swap.rejected.slippage");
                if let Ok(s) = &sim {
                    acc.count("check.C15.trio-swap-rejected-for-slippage");
                    let gross = w(s.return_amount.u128()) + w(s.swap_fee_amount.u128()) + w(s.protocol_fee_amount.u128()) + w(s.burn_fee_amount.u128());
                    let spread = s.spread_amount.u128();
                    let lim = eff_spread(pl.max_spread);
                    let within = match pl.belief {
                        None => {
                            let den = gross + w(spread);
                            !den.is_zero() && w(spread) * w(ONE18) / den <= w(lim)
                        }
                        Some(p) => {
                            if p == 0 {
                                false
                            } else {
                                let inv = w(ONE18) * w(ONE18) / w(p);
                                let expected = w(pl.amount) * inv / w(ONE18);
                                gross >= expected || expected.is_zero() || (expected - gross) * w(ONE18) / expected <= w(lim)
                            }
                        }
                    };
                    if within {
                        acc.violation("C15", "L3/trio/within-limit-but-rejected-for-slippage", detail(wd, json!({"sim": format!("{s:?}"), "step": what})));
                    }
                }
            }
            false
        }
        Ok(resp) => {
            acc.count("swap.ok");
            let Ok(post) = wd.observe() else {
                acc.violation("C04", "P1/pool-query-fails-after-swap", detail(wd, json!({"step": what})));
                return true;
            };
            let at = attrs_of_action(&resp, &wd.trio.addr, "swap");
            let a = at.last().cloned().unwrap_or_default();
            let g = |k: &str| a.get(k).map(|s| u(s)).unwrap_or(u128::MAX);
            let (ret, spread, sf, pf, bf) = (g("return_amount"), g("spread_amount"), g("swap_fee_amount"), g("protocol_fee_amount"), g("burn_fee_amount"));
            // C14
            acc.count("check.C14.trio-swap");
            match &sim {
                Ok(s) => {
                    if s.return_amount.u128() != ret || s.spread_amount.u128() != spread || s.swap_fee_amount.u128() != sf || s.protocol_fee_amount.u128() != pf || s.burn_fee_amount.u128() != bf {
                        acc.violation("C14", "Q1/trio/simulation!=execution-attributes", detail(wd, json!({"sim": format!("{s:?}"), "attrs": a, "step": what})));
                    }
                }
                Err(e) => acc.violation("C14", "Q1/trio/simulation-failed-but-swap-succeeded", detail(wd, json!({"sim_err": e, "step": what}))),
            }
            let rb_post = wd.trio.assets[ask].balance(&wd.app, &receiver);
            if rb_post.wrapping_sub(rb_pre) != ret {
                acc.violation("C14", "Q2/trio/receiver-delta!=return_amount", detail(wd, json!({"step": what})));
            }
            if post.pend[ask].wrapping_sub(pre.pend[ask]) != pf || post.pend[from] != pre.pend[from] || post.pend[other] != pre.pend[other] {
                acc.violation("C14", "Q3/trio/pending-fee-delta!=protocol_fee", detail(wd, json!({"pre": format!("{pre:?}"), "post": format!("{post:?}"), "step": what})));
            }
            if pre.supply[ask].wrapping_sub(post.supply[ask]) != bf {
                acc.violation("C07", "A3/trio/burn-fee-charged-but-supply-not-reduced-by-it", detail(wd, json!({"burn_fee": bf.to_string(), "step": what})));
                acc.violation("C14", "Q4/trio/supply-drop!=burn_fee", detail(wd, json!({"step": what})));
            }
            if post.bal[from].wrapping_sub(pre.bal[from]) != pl.amount || pre.bal[ask].wrapping_sub(post.bal[ask]) != ret.wrapping_add(bf) || post.bal[other] != pre.bal[other] {
                acc.violation("C14", "Q5/trio/pool-balance-delta", detail(wd, json!({"pre": format!("{pre:?}"), "post": format!("{post:?}"), "step": what})));
            }
            // C07
            wd.charged[ask] += pf;
            wd.burned[ask] += bf;
            check_ledger(acc, wd, &post, &what);
            // P4 (i): exact equality with the pure curve on what the contract should have used
            let gross = w(ret) + w(sf) + w(pf) + w(bf);
            acc.count("check.P4.i");
            let inv = StableSwap::new(cfg.a0, cfg.a1, block, cfg.t0, cfg.t1);
            let pure = catch_unwind(AssertUnwindSafe(|| inv.swap_to(Uint128::new(pl.amount), Uint128::new(pre.r[from]), Uint128::new(pre.r[ask]), Uint128::new(pre.r[other]))));
            match pure {
                Ok(Some(sr)) => {
                    if w(sr.amount_swapped.u128()) != gross {
                        acc.violation("C04", "P4.i/proceeds+fees!=curve-output", detail(wd, json!({"gross_paid": gross.to_string(), "swap_to": sr.amount_swapped.to_string(), "pre": format!("{pre:?}"), "step": what})));
                    }
                }
                _ => acc.violation("C04", "P4.i/pure-curve-fails-where-contract-succeeded", detail(wd, json!({"step": what}))),
            }
            let want = [mul_share_floor(gross, wd.fees[0]), mul_share_floor(gross, wd.fees[1]), mul_share_floor(gross, wd.fees[2])];
            if w(pf) != want[0] || w(sf) != want[1] || w(bf) != want[2] {
                acc.violation("C04", "P4.i/fee-split", detail(wd, json!({"got": [pf.to_string(), sf.to_string(), bf.to_string()], "want": [want[0].to_string(), want[1].to_string(), want[2].to_string()], "step": what})));
            }
            // P5 behavioural: the hook's amp on the stored config equals my linear formula
            acc.count("check.P5");
            let hook_amp = inv.compute_amp_factor();
            if hook_amp != Some(amp) {
                acc.violation("C04", "P5/effective-amp!=linear-interpolation", detail(wd, json!({"hook": format!("{hook_amp:?}"), "linear": amp, "step": what})));
            }
            let (lo, hi) = (cfg.a0.min(cfg.a1), cfg.a0.max(cfg.a1));
            if amp < lo || amp > hi {
                acc.violation("C04", "P5/effective-amp-outside-ramp-endpoints", detail(wd, json!({"amp": amp, "step": what})));
            }
            // P4 (ii): against the independent curve, at my own A(t)
            if in_domain(&pre.r) && pl.amount <= MAXAMT {
                check_curve_bound(acc, wd, &pre.r, from, ask, pl.amount, gross, amp, &what, "e2e");
            }
            // C15 accepted
            acc.count("check.C15.trio-swap-accepted");
            let lim = eff_spread(pl.max_spread);
            match pl.belief {
                None => {
                    let den = gross + w(spread);
                    if !den.is_zero() {
                        let ratio = w(spread) * w(ONE18) / den;
                        if ratio > w(lim) {
                            acc.violation("C15", "L1/trio/accepted-above-max-spread", detail(wd, json!({"ratio18": ratio.to_string(), "limit18": lim.to_string(), "step": what})));
                        }
                    }
                }
                Some(p) if p > 0 => {
                    let invp = w(ONE18) * w(ONE18) / w(p);
                    let expected = w(pl.amount) * invp / w(ONE18);
                    if gross < expected && !expected.is_zero() {
                        let ratio = (expected - gross) * w(ONE18) / expected;
                        if ratio > w(lim) {
                            acc.violation("C15", "L2/trio/accepted-below-belief-price-bound", detail(wd, json!({"expected": expected.to_string(), "gross": gross.to_string(), "step": what})));
                        }
                    }
                }
                _ => {}
            }
            check_step(acc, wd, &pre, &post, amp, amp, &what);
            true
        }
    }
}

/// over-/under-payment against the independent curve: dest - y*(D*+4) - 4 <= gross <= dest - y*(D*-4) + 3
fn check_curve_bound(acc: &mut Acc, wd: &TrioWorld, r: &[u128; 3], from: usize, ask: usize, offer: u128, gross: U1024, amp: u64, what: &str, tag: &str) {
    let other = 3 - from - ask;
    acc.count(&format!("check.P4.ii.{tag}"));
    let d = dstar(r, amp);
    let xs = [w(r[from]) + w(offer), w(r[other])];
    let d_lo = if d > w(4) { d - w(4) } else { U1024::zero() };
    let y_lo = curve::y_star(&xs, amp, &d_lo, Some(w(r[ask])));
    let floor = if y_lo > w(3) { y_lo - w(3) } else { U1024::zero() };
    let after = w(r[ask]) - gross;
    let mut r_post = *r;
    r_post[from] = r[from].saturating_add(offer);
    r_post[ask] = to_u128(&after).unwrap_or(0);
    let imb = imb3_worst(r, &r_post);
    if after < floor {
        let units = diff_f64(&floor, &after);
        let cls = if units <= 16.0 { "<=16u" } else { dust(units, f64_of(&d)) };
        acc.violation("C04", &format!("P4.ii/overpays-vs-curve/{imb}/{cls}"), detail(wd, json!({"reserves": [r[0].to_string(), r[1].to_string(), r[2].to_string()], "from": from, "ask": ask, "offer": offer.to_string(), "amp": amp, "gross": gross.to_string(), "after": after.to_string(), "floor": floor.to_string(), "units": units, "step": what})));
    } else {
        acc.slack(&format!("P4.ii.over.units.{imb}"), diff_f64(&after, &floor), || what.to_string());
    }
}

pub fn monitored_collect(acc: &mut Acc, wd: &mut TrioWorld, user: usize) {
    let Ok(pre) = wd.observe() else { return };
    let bal_pre = all_balances(&wd.app, &wd.tokens);
    let what = format!("collect user{user} pending={:?}", pre.pend);
    wd.log(what.clone());
    let (usr, pa) = (wd.users[user].clone(), wd.trio.addr.clone());
    let amp = amp_at(&wd.amp_cfg(), wd.app.block_info().height);
    match exec(&mut wd.app, &usr, &pa, &tm::ExecuteMsg::CollectProtocolFees {}, &[]) {
        Err(_) => acc.count("collect.rejected"),
        Ok(_) => {
            acc.count("collect.ok");
            let sub = pre.pend.iter().any(|p| *p > 0 && *p <= 1000);
            if sub {
                acc.count("collect.with-subthreshold-pending");
            }
            let Ok(post) = wd.observe() else { return };
            let bal_post = all_balances(&wd.app, &wd.tokens);
            acc.count("check.A2.trio");
            let mut expect: Vec<(String, String, i128)> = vec![];
            let mut expect_thr: Vec<(String, String, i128)> = vec![];
            for i in 0..3 {
                if pre.pend[i] > 0 {
                    expect.push((wd.trio.addr.to_string(), wd.trio.assets[i].id(), -(pre.pend[i] as i128)));
                    expect.push((wd.core.collector.to_string(), wd.trio.assets[i].id(), pre.pend[i] as i128));
                }
                if pre.pend[i] > 1000 {
                    expect_thr.push((wd.trio.addr.to_string(), wd.trio.assets[i].id(), -(pre.pend[i] as i128)));
                    expect_thr.push((wd.core.collector.to_string(), wd.trio.assets[i].id(), pre.pend[i] as i128));
                }
            }
            let mut got: Vec<(String, String, i128)> = balance_diff(&bal_pre, &bal_post).iter().map(|(a, s, b, c)| (a.clone(), s.clone(), *c as i128 - *b as i128)).collect();
            got.sort();
            expect.sort();
            expect_thr.sort();
            for i in 0..3 {
                let d = got.iter().find(|(a, s, _)| *a == wd.core.collector.to_string() && *s == wd.trio.assets[i].id()).map(|x| x.2).unwrap_or(0);
                if d > 0 {
                    wd.sent[i] += d as u128;
                }
            }
            let mut allowed = true;
            let mut explained: Vec<(String, String, i128)> = vec![];
            for i in 0..3 {
                let dp = got.iter().find(|(a, s, _)| *a == wd.trio.addr.to_string() && *s == wd.trio.assets[i].id()).map(|x| x.2).unwrap_or(0);
                let dc = got.iter().find(|(a, s, _)| *a == wd.core.collector.to_string() && *s == wd.trio.assets[i].id()).map(|x| x.2).unwrap_or(0);
                if dp == 0 && dc == 0 {
                    if pre.pend[i] > 0 {
                        acc.count("collect.deferred-pending-amount");
                    }
                    continue;
                }
                if dp != -(pre.pend[i] as i128) || dc != pre.pend[i] as i128 {
                    allowed = false;
                }
                explained.push((wd.trio.addr.to_string(), wd.trio.assets[i].id(), dp));
                explained.push((wd.core.collector.to_string(), wd.trio.assets[i].id(), dc));
            }
            explained.sort();
            let _ = &expect_thr;
            if !allowed || explained != got {
                acc.violation("C07", "A2/trio/collect/unexpected-balance-changes", detail(wd, json!({"pending": format!("{:?}", pre.pend), "expected_if_all_sent": format!("{expect:?}"), "got": format!("{got:?}"), "step": what})));
            }
            if post.r != pre.r || post.s != pre.s {
                let sig = if sub { "A2/trio/collect/reserves-changed/pending<=1000" } else { "A2/trio/collect/reserves-changed" };
                acc.violation("C07", sig, detail(wd, json!({"pre": format!("{pre:?}"), "post": format!("{post:?}"), "step": what})));
            }
            check_ledger(acc, wd, &post, &what);
            check_step(acc, wd, &pre, &post, amp, amp, &what);
        }
    }
}

pub fn monitored_provide(acc: &mut Acc, wd: &mut TrioWorld, user: usize, d: [u128; 3], receiver: Option<usize>, slip: Option<u128>) -> bool {
    let Ok(pre) = wd.observe() else { return false };
    let what = format!("provide user{user} d={d:?} receiver={receiver:?} slip={slip:?}");
    wd.log(what.clone());
    let rcv = receiver.map(|t| wd.users[t].clone()).unwrap_or(wd.users[user].clone());
    let lp_pre = bal_cw20(&wd.app, &wd.trio.lp, &rcv);
    let amp = amp_at(&wd.amp_cfg(), wd.app.block_info().height);
    match wd.provide(user, d, receiver.map(|t| wd.users[t].clone()).as_ref(), slip) {
        Err(_) => {
            acc.count("provide.rejected");
            false
        }
        Ok(_) => {
            acc.count("provide.ok");
            let Ok(post) = wd.observe() else {
                acc.violation("C04", "P1/pool-query-fails-after-provide", detail(wd, json!({"step": what})));
                return true;
            };
            let minted = bal_cw20(&wd.app, &wd.trio.lp, &rcv) - lp_pre;
            for i in 0..3 {
                if post.bal[i] - pre.bal[i] != d[i] {
                    acc.violation("C04", "P1/deposit-amount-not-received", detail(wd, json!({"step": what})));
                }
            }
            if pre.s == 0 {
                wd.first_done = true;
                acc.count("provide.first");
                if post.lp_locked != 3000 || post.s != minted + 3000 {
                    acc.violation("C04", "P1/first-deposit-mint", detail(wd, json!({"minted": minted.to_string(), "locked": post.lp_locked.to_string(), "step": what})));
                }
            } else if post.s - pre.s != minted {
                acc.violation("C04", "P1/minted!=supply-delta", detail(wd, json!({"step": what})));
            }
            check_ledger(acc, wd, &post, &what);
            check_step(acc, wd, &pre, &post, amp, amp, &what);
            true
        }
    }
}

pub fn monitored_withdraw(acc: &mut Acc, wd: &mut TrioWorld, user: usize, lp: u128) -> bool {
    let Ok(pre) = wd.observe() else { return false };
    let what = format!("withdraw user{user} lp={lp}");
    wd.log(what.clone());
    let usr = wd.users[user].clone();
    let ub_pre = [0, 1, 2].map(|i| wd.trio.assets[i].balance(&wd.app, &usr));
    let amp = amp_at(&wd.amp_cfg(), wd.app.block_info().height);
    match wd.withdraw(user, lp) {
        Err(_) => {
            acc.count("withdraw.rejected");
            false
        }
        Ok(_) => {
            acc.count("withdraw.ok");
            let Ok(post) = wd.observe() else {
                acc.violation("C04", "P1/pool-query-fails-after-withdraw", detail(wd, json!({"step": what})));
                return true;
            };
            let ub_post = [0, 1, 2].map(|i| wd.trio.assets[i].balance(&wd.app, &usr));
            acc.count("check.P1.withdraw-pro-rata");
            if pre.s - post.s != lp {
                acc.violation("C04", "P1/withdraw-burned!=lp-sent", detail(wd, json!({"step": what})));
            }
            for i in 0..3 {
                let refund = ub_post[i] - ub_pre[i];
                if pre.bal[i] - post.bal[i] != refund || w(refund) * w(pre.s) > w(pre.r[i]) * w(lp) {
                    acc.violation("C04", "P1/withdraw-paid-more-than-pro-rata", detail(wd, json!({"asset": i, "refund": refund.to_string(), "pre": format!("{pre:?}"), "step": what})));
                }
            }
            check_ledger(acc, wd, &post, &what);
            check_step(acc, wd, &pre, &post, amp, amp, &what);
            true
        }
    }
}

/// P6 + P5: ramp attempt with candidates on / just inside / just outside each bound
pub fn monitored_ramp(acc: &mut Acc, wd: &mut TrioWorld, r: &mut Rng) {
    let cfg = wd.amp_cfg();
    let now = wd.app.block_info().height;
    let a_now = amp_at(&cfg, now);
    let fa = match r.below(12) {
        0 => a_now.saturating_mul(10),
        1 => a_now.saturating_mul(10) + 1,
        2 => a_now.saturating_mul(10).saturating_sub(1).max(1),
        3 => (a_now / 10).max(1),
        4 => (a_now / 10).saturating_sub(1),
        5 => a_now / 10 + 1,
        6 => a_now / 2,
        7 => a_now / 20,
        8 => *r.pick(&[0u64, 1, 1_000_000, 1_000_001]),
        9 => a_now.saturating_mul(2),
        _ => r.range(0, 1_000_100),
    };
    let fb = now + match r.below(6) {
        0 => 10_000,
        1 => 9_999,
        2 => 10_001,
        3 => 0,
        _ => r.range(1, 40_000),
    };
    let what = format!("ramp future_a={fa} future_block={fb} (now={now}, A_now={a_now})");
    wd.log(what.clone());
    let pre = wd.observe().ok();
    match wd.update(None, Some((fa, fb))) {
        Err(_) => {
            acc.count("ramp.rejected");
            let ok_bounds = fa >= 1 && fa <= 1_000_000 && fa <= a_now.saturating_mul(10) && a_now <= fa.saturating_mul(10) && fb >= now + 10_000;
            if ok_bounds {
                acc.count("ramp.rejected-although-within-bounds");
                if fa < a_now {
                    acc.count("ramp.rejected-although-within-bounds.down");
                }
            }
        }
        Ok(_) => {
            acc.count("ramp.accepted");
            acc.count("check.P6");
            let mut bad = vec![];
            if fa < 1 || fa > 1_000_000 {
                bad.push("outside[1,1e6]");
            }
            if fa > a_now.saturating_mul(10) {
                bad.push("up>10x");
            }
            if a_now > fa.saturating_mul(10) {
                bad.push("down>10x");
            }
            if fb < now + 10_000 {
                bad.push("shorter-than-min-blocks");
            }
            if !bad.is_empty() {
                acc.violation("C04", &format!("P6/ramp-accepted/{}", bad.join("+")), detail(wd, json!({"step": what})));
            }
            if fa < a_now {
                acc.count("ramp.accepted.down");
            }
            let ncfg = wd.amp_cfg();
            if ncfg.a0 != a_now || ncfg.a1 != fa || ncfg.t0 != now || ncfg.t1 != fb {
                acc.violation("C04", "P5/ramp-stored-config-wrong", detail(wd, json!({"stored": format!("{ncfg:?}"), "step": what})));
            }
            if let (Some(pre), Ok(post)) = (pre, wd.observe()) {
                let a2 = amp_at(&ncfg, now);
                check_step(acc, wd, &pre, &post, a_now, a2, &what);
            }
        }
    }
}

/// P5 over time: sample the hook's amp at several blocks of the current ramp
fn check_amp_schedule(acc: &mut Acc, wd: &TrioWorld) {
    let cfg = wd.amp_cfg();
    let now = wd.app.block_info().height;
    let (lo, hi) = (cfg.a0.min(cfg.a1), cfg.a0.max(cfg.a1));
    let mut prev: Option<u64> = None;
    let mut ts = vec![cfg.t0.max(now.min(cfg.t0)), cfg.t0 + 1, (cfg.t0 + cfg.t1) / 2, cfg.t1.saturating_sub(1), cfg.t1, cfg.t1 + 1, cfg.t1 + 100_000, now];
    ts.retain(|t| *t >= cfg.t0);
    ts.sort();
    for t in ts {
        acc.count("check.P5.schedule");
        let inv = StableSwap::new(cfg.a0, cfg.a1, t, cfg.t0, cfg.t1);
        let a = inv.compute_amp_factor();
        let mine = amp_at(&cfg, t);
        if a != Some(mine) {
            acc.violation("C04", "P5/effective-amp!=linear-interpolation", detail(wd, json!({"t": t, "hook": format!("{a:?}"), "linear": mine})));
            continue;
        }
        let a = mine;
        if a < lo || a > hi {
            acc.violation("C04", "P5/effective-amp-outside-ramp-endpoints", detail(wd, json!({"t": t, "amp": a})));
        }
        if t >= cfg.t1 && a != cfg.a1 {
            acc.violation("C04", "P5/amp-not-constant-after-ramp-end", detail(wd, json!({"t": t, "amp": a})));
        }
        if let Some(p) = prev {
            if (cfg.a1 >= cfg.a0 && a < p) || (cfg.a1 <= cfg.a0 && a > p) {
                acc.violation("C04", "P5/amp-not-monotone-in-block-height", detail(wd, json!({"t": t, "amp": a, "prev": p})));
            }
        }
        prev = Some(a);
    }
}

/// P3 probe with rollback: there and straight back
fn probe_roundtrip(acc: &mut Acc, wd: &mut TrioWorld, r: &mut Rng) {
    let Ok(obs) = wd.observe() else { return };
    if obs.s == 0 || !in_domain(&obs.r) {
        return;
    }
    let saved = snap(&wd.app);
    let model = (wd.charged, wd.sent, wd.burned, wd.ops.len());
    let from = r.idx(3);
    let to_i = (from + 1 + r.idx(2)) % 3;
    let user = 3;
    let usr = wd.users[user].clone();
    let amt = if r.chance(2, 3) { (obs.r[from] / r.range128(2, 10_000)).max(1) } else { r.near(obs.r[from], MAXAMT) };
    let b0 = wd.trio.assets[from].balance(&wd.app, &usr);
    let a0 = wd.trio.assets[to_i].balance(&wd.app, &usr);
    if wd.swap(user, from, to_i, amt, None, Some(ONE18 / 2), None).is_ok() {
        let got = wd.trio.assets[to_i].balance(&wd.app, &usr) - a0;
        let mid = wd.observe().map(|o| o.r).unwrap_or(obs.r);
        if got > 0 && wd.swap(user, to_i, from, got, None, Some(ONE18 / 2), None).is_ok() {
            acc.count("check.P3.e2e");
            let b1 = wd.trio.assets[from].balance(&wd.app, &usr);
            if b1 > b0 {
                let gain = (b1 - b0) as f64;
                let amp = amp_at(&wd.amp_cfg(), wd.app.block_info().height);
                let cls = dust(gain, f64_of(&dstar(&obs.r, amp)));
                if cls == "within-allowance" {
                    acc.count("P3.gain-within-4-units");
                } else {
                    acc.violation("C04", &format!("P3/{}/{}/{}", imb3_worst(&obs.r, &mid), fee_class(&wd.fees), cls), detail(wd, json!({"from": from, "to": to_i, "amount": amt.to_string(), "gain": (b1 - b0).to_string(), "obs": format!("{obs:?}")})));
                }
            }
        }
    }
    restore(&mut wd.app, &saved);
    wd.charged = model.0;
    wd.sent = model.1;
    wd.burned = model.2;
    wd.ops.truncate(model.3);
}

pub fn run_history(acc: &mut Acc, r: &mut Rng, variant: u64, steps: u64, prop: &str) {
    let mut wd = build_trio_world(r, variant);
    let bits = r.range(24, 100) as u32;
    let base = 1u128 << bits;
    let d0 = match r.below(4) {
        0 => [base, base, base],
        1 => [r.near(base, MAXAMT).max(1_000_000), r.near(base, MAXAMT).max(1_000_000), r.near(base, MAXAMT).max(1_000_000)],
        2 => [base, (base / r.range128(1, 1000)).max(1_000_000), base.saturating_mul(r.range128(1, 100)).min(MAXAMT)],
        _ => [r.amount(base).max(1_000_000), r.amount(base).max(1_000_000), r.amount(base).max(1_000_000)],
    };
    monitored_provide(acc, &mut wd, 0, d0, None, None);
    let mut class = vec![variant % 8, (bits / 12) as u64];
    for step in 0..steps {
        let Ok(obs) = wd.observe() else {
            acc.violation("C04", "P1/pool-query-fails", detail(&wd, json!({"step": step})));
            break;
        };
        let before = snap(&wd.app);
        let user = r.idx(4);
        let op = r.below(100);
        let mut ok = true;
        let what;
        if obs.s == 0 || op < 16 {
            let d = if obs.s == 0 {
                d0
            } else {
                match r.below(5) {
                    0 | 1 => {
                        let k = r.range128(1, 10_000);
                        [(obs.r[0] / k).max(1), (obs.r[1] / k).max(1), (obs.r[2] / k).max(1)]
                    }
                    2 => [r.near(obs.r[0], MAXAMT), r.near(obs.r[1], MAXAMT), r.near(obs.r[2], MAXAMT)],
                    3 => [r.amount(1000), r.amount(1000), r.amount(1000)],
                    _ => [r.amount(1u128 << 90), (obs.r[1] / 1000).max(1), (obs.r[2] / 1000).max(1)],
                }
            };
            let slip = match r.below(5) {
                0 => Some(ONE18 / 100),
                1 => Some(r.range128(0, ONE18)),
                _ => None,
            };
            what = format!("provide {d:?}");
            ok = monitored_provide(acc, &mut wd, user, d, if r.chance(1, 6) { Some(r.idx(4)) } else { None }, slip);
            class.push(1);
        } else if op < 30 {
            let have = bal_cw20(&wd.app, &wd.trio.lp, &wd.users[user]);
            let lp = if have == 0 { r.amount(1000) } else { match r.below(4) { 0 => have, 1 => 1, _ => r.range128(1, have) } };
            what = format!("withdraw {lp}");
            ok = monitored_withdraw(acc, &mut wd, user, lp);
            class.push(2);
        } else if op < 72 {
            let from = r.idx(3);
            let to_i = (from + 1 + r.idx(2)) % 3;
            let amount = match r.below(8) {
                0 => r.amount(1000),
                1 => r.near(obs.r[from], MAXAMT),
                2 => r.amount(MAXAMT),
                _ => (obs.r[from] / r.range128(2, 100_000)).max(1),
            };
            let belief = if r.chance(1, 8) { Some(r.near(ONE18, ONE18 * 4)) } else { None };
            let pl = SwapPlan { user, from, to_i, amount, belief, max_spread: crate::mon::pools::gen_spread(r), to: if r.chance(1, 6) { Some(r.idx(4)) } else { None } };
            what = format!("swap {from}->{to_i} {amount}");
            ok = monitored_swap(acc, &mut wd, &pl);
            class.push(3 + (from * 3 + to_i) as u64);
        } else if op < 76 && obs.s > 0 && wd.fees[0] > 0 {
            // steer a pending protocol fee onto the collectable-minimum boundary (999 / 1000 / 1001), then collect
            what = "steer pending fee to the collection threshold, then collect".into();
            let ask = r.idx(3);
            let from = (ask + 1 + r.idx(2)) % 3;
            let target = *r.pick(&[1000u128, 1000, 1001, 999]);
            if obs.pend[ask] < target {
                let need = target - obs.pend[ask];
                let (mut lo, mut hi) = (1u128, obs.r[from].saturating_mul(8).max(1_000_000));
                let mut found = None;
                for _ in 0..140 {
                    if lo > hi {
                        break;
                    }
                    let mid = lo + (hi - lo) / 2;
                    match wd.simulate(from, ask, mid) {
                        Ok(sm) => {
                            let pf = sm.protocol_fee_amount.u128();
                            if pf == need {
                                found = Some(mid);
                                break;
                            } else if pf < need {
                                lo = mid + 1;
                            } else {
                                hi = mid - 1;
                            }
                        }
                        Err(_) => hi = mid - 1,
                    }
                }
                if let Some(amount) = found {
                    let pl = SwapPlan { user, from, to_i: ask, amount, belief: None, max_spread: Some(ONE18 / 2), to: None };
                    if monitored_swap(acc, &mut wd, &pl) {
                        if let Ok(o2) = wd.observe() {
                            if o2.pend[ask] == target {
                                acc.count(&format!("steer.pending=={target}.then-collect"));
                            }
                        }
                        monitored_collect(acc, &mut wd, r.idx(4));
                    }
                }
            }
            class.push(13);
        } else if op < 79 {
            what = "collect".into();
            monitored_collect(acc, &mut wd, user);
            class.push(12);
        } else if op < 84 {
            let t = r.fee_triple();
            what = format!("set_fees {t:?}");
            wd.log(what.clone());
            let amp = amp_at(&wd.amp_cfg(), wd.app.block_info().height);
            if wd.update(Some(t), None).is_ok() {
                wd.fees = t;
                acc.count("set_fees.ok");
                if let Ok(post) = wd.observe() {
                    check_ledger(acc, &wd, &post, &what);
                    check_step(acc, &wd, &obs, &post, amp, amp, &what);
                }
            } else {
                ok = false;
            }
            class.push(13);
        } else if op < 92 {
            what = "ramp".into();
            monitored_ramp(acc, &mut wd, r);
            check_amp_schedule(acc, &wd);
            class.push(14);
        } else if op < 96 {
            let i = r.idx(3);
            let amt = if r.chance(1, 2) { r.amount(1000) } else { r.near(obs.r[i] / 100 + 1, 1u128 << 100) };
            what = format!("donate asset{i} {amt}");
            wd.log(what.clone());
            let (a, from, to) = (wd.trio.assets[i].clone(), wd.users[user].clone(), wd.trio.addr.clone());
            let amp = amp_at(&wd.amp_cfg(), wd.app.block_info().height);
            if transfer(&mut wd.app, &a, &from, &to, amt).is_ok() {
                acc.count("donate.ok");
                if let Ok(post) = wd.observe() {
                    check_ledger(acc, &wd, &post, &what);
                    check_step(acc, &wd, &obs, &post, amp, amp, &what);
                }
            }
            class.push(15);
        } else {
            what = "probe".into();
            probe_roundtrip(acc, &mut wd, r);
        }
        if !ok {
            acc.count("check.U1");
            let after = snap(&wd.app);
            if !same_state(&before, &after) {
                acc.violation(prop, "U1/rejected-call-changed-state", detail(&wd, json!({"changed_keys": snap_diff(&before, &after), "step": what})));
            }
        }
        acc.evals += 1;
        // blocks: same block, +1, +1000, +10000 (ramps in progress while trading)
        let adv = *r.pick(&[0u64, 0, 1, 1, 1, 10, 1000, 10_000]);
        if adv > 0 {
            advance(&mut wd.app, adv, adv * 6_000_000_000);
        }
        if step % 8 == 7 {
            probe_roundtrip(acc, &mut wd, r);
        }
        if class.len() > 5 {
            acc.class_only(&class);
            class.truncate(2);
        }
    }
    for (k, v) in crate::trap::traps_take() {
        acc.add(&format!("trap-site: {k}"), v);
    }
    acc.sample(|| json!({"history_tail": wd.tail(10), "assets": [wd.trio.assets[0].id(), wd.trio.assets[1].id(), wd.trio.assets[2].id()]}));
}

// ------------------------------------------------------------------------------------------------
// pure monitor over the curve module

fn gen_reserves(r: &mut Rng) -> [u128; 3] {
    let base = r.amount(MAXAMT).max(1_000_000);
    match r.below(6) {
        0 | 1 => [base, base, base],
        2 => [base, r.near(base, MAXAMT).max(1_000_000), r.near(base, MAXAMT).max(1_000_000)],
        3 => {
            let k = r.range128(2, 1000);
            [base, (base / k).max(1_000_000), base.saturating_mul(r.range128(1, 10)).min(MAXAMT)]
        }
        4 => [base, (base / r.range128(1000, 1_000_000)).max(1_000_000), r.near(base, MAXAMT).max(1_000_000)],
        _ => [r.amount(MAXAMT).max(1_000_000), r.amount(MAXAMT).max(1_000_000), r.amount(MAXAMT).max(1_000_000)],
    }
}

fn pure_detail(r: &[u128; 3], amp: u64, from: usize, ask: usize, offer: u128, extra: Value) -> Value {
    json!({"reserves": [r[0].to_string(), r[1].to_string(), r[2].to_string()], "amp": amp, "from": from, "ask": ask, "offer": offer.to_string(), "extra": extra})
}

fn pure_case(acc: &mut Acc, r: &mut Rng) {
    let res = gen_reserves(r);
    let amp = match r.below(3) {
        0 => *r.pick(&[1u64, 2, 10, 100, 1000, 100_000, 1_000_000]),
        _ => r.range(1, 1_000_000),
    };
    let from = r.idx(3);
    let ask = (from + 1 + r.idx(2)) % 3;
    let other = 3 - from - ask;
    let offer = match r.below(6) {
        0 => r.amount(1000),
        1 => r.near(res[from], MAXAMT),
        2 => r.amount(MAXAMT),
        _ => (res[from] / r.range128(1, 100_000)).max(1),
    };
    let inv = StableSwap::new(amp, amp, 0, 0, 0);
    let out = catch_unwind(AssertUnwindSafe(|| inv.swap_to(Uint128::new(offer), Uint128::new(res[from]), Uint128::new(res[ask]), Uint128::new(res[other]))));
    let outcome = match &out {
        Ok(Some(_)) => 0u64,
        Ok(None) => 1,
        Err(_) => 2,
    };
    let Ok(Some(sr)) = out else {
        acc.case(&[30, (64 - amp.leading_zeros()) as u64 / 3, mag_class(res[0]) / 2, hash_str(imb3(&res)) % 97, outcome, mag_class(offer) / 3, (from * 3 + ask) as u64]);
        acc.count("pure.swap.rejected");
        return;
    };
    let mut r2 = res;
    r2[from] = res[from] + offer;
    r2[ask] = res[ask] - sr.amount_swapped.u128();
    let imb = imb3_worst(&res, &r2);
    acc.case(&[30, (64 - amp.leading_zeros()) as u64 / 3, mag_class(res[0]) / 2, hash_str(imb) % 97, outcome, mag_class(offer) / 3, (from * 3 + ask) as u64]);
    acc.count("pure.swap.ok");
    let gross = w(sr.amount_swapped.u128());
    // stub world-less detail
    let d = dstar(&res, amp);
    // P4(ii) over-payment vs independent curve
    acc.count("check.P4.ii.pure");
    let xs = [w(res[from]) + w(offer), w(res[other])];
    let d_lo = if d > w(4) { d - w(4) } else { U1024::zero() };
    let y_lo = curve::y_star(&xs, amp, &d_lo, Some(w(res[ask])));
    let floor = if y_lo > w(3) { y_lo - w(3) } else { U1024::zero() };
    let after = w(res[ask]) - gross;
    if after < floor {
        let units = diff_f64(&floor, &after);
        let cls = if units <= 16.0 { "<=16u" } else { dust(units, f64_of(&d)) };
        acc.violation("C04", &format!("P4.ii/overpays-vs-curve/{imb}/{cls}"), pure_detail(&res, amp, from, ask, offer, json!({"gross": gross.to_string(), "floor": floor.to_string(), "units": units})));
    } else {
        acc.slack(&format!("P4.ii.pure.over.units.{imb}"), diff_f64(&after, &floor), || pure_detail(&res, amp, from, ask, offer, json!({})).to_string());
    }
    // P2 pure at zero fee: D* after the swap (no fees) must not drop beyond allowance
    if in_domain(&r2) {
        acc.count("check.P2.pure");
        let d1 = dstar(&r2, amp);
        if d1 < d {
            let units = diff_f64(&d, &d1);
            let rel = units / f64_of(&d).max(1.0);
            let cls = dust(units, f64_of(&d));
            if cls != "within-allowance" {
                acc.violation("C04", &format!("P2/{imb}/{cls}"), pure_detail(&res, amp, from, ask, offer, json!({"op": "pure swap_to at zero fee", "D0": d.to_string(), "D1": d1.to_string(), "drop_units": units, "rel": rel})));
            } else {
                acc.count("P2.drop-within-4-units");
            }
        }
        // P3 pure at zero fees: swap back
        let back = catch_unwind(AssertUnwindSafe(|| inv.swap_to(sr.amount_swapped, Uint128::new(r2[ask]), Uint128::new(r2[from]), Uint128::new(r2[other]))));
        if let Ok(Some(b)) = back {
            acc.count("check.P3.pure");
            if b.amount_swapped.u128() > offer {
                let gain = (b.amount_swapped.u128() - offer) as f64;
                let cls = dust(gain, f64_of(&d));
                if cls == "within-allowance" {
                    acc.count("P3.gain-within-4-units");
                } else {
                    acc.violation("C04", &format!("P3/{imb}/fee=0/{cls}"), pure_detail(&res, amp, from, ask, offer, json!({"op": "pure there-and-back at zero fee", "out": sr.amount_swapped.to_string(), "back": b.amount_swapped.to_string()})));
                }
            }
        }
    }
    acc.sample(|| pure_detail(&res, amp, from, ask, offer, json!({"gross": gross.to_string(), "D*": d.to_string()})));
}

/// P5 pure: amp schedule of random ramps at random blocks
fn pure_amp_case(acc: &mut Acc, r: &mut Rng) {
    let a0 = r.range(1, 1_000_000);
    let a1 = match r.below(3) {
        0 => (a0.saturating_mul(r.range(1, 10))).min(1_000_000),
        1 => (a0 / r.range(1, 10)).max(1),
        _ => r.range(1, 1_000_000),
    };
    let t0 = r.range(0, 1_000_000_000);
    let t1 = t0 + r.range(1, 5_000_000);
    let cfg = AmpCfg { a0, a1, t0, t1 };
    let mut prev: Option<u64> = None;
    let mut ts: Vec<u64> = vec![t0, t0 + 1, t1 - 1, t1, t1 + 1, r.range(t0, t1), r.range(t0, t1), r.range(t1, t1 + 1_000_000)];
    ts.sort();
    acc.case(&[40, (a1 >= a0) as u64, (64 - a0.leading_zeros()) as u64 / 4, (64 - (t1 - t0).leading_zeros()) as u64 / 4]);
    for t in ts {
        acc.count("check.P5.pure");
        let a = StableSwap::new(a0, a1, t, t0, t1).compute_amp_factor();
        let mine = amp_at(&cfg, t);
        if a != Some(mine) {
            acc.violation("C04", "P5/effective-amp!=linear-interpolation", json!({"cfg": format!("{cfg:?}"), "t": t, "hook": format!("{a:?}"), "linear": mine}));
            continue;
        }
        if mine < a0.min(a1) || mine > a0.max(a1) {
            acc.violation("C04", "P5/effective-amp-outside-ramp-endpoints", json!({"cfg": format!("{cfg:?}"), "t": t, "amp": mine}));
        }
        if let Some(p) = prev {
            if (a1 >= a0 && mine < p) || (a1 <= a0 && mine > p) {
                acc.violation("C04", "P5/amp-not-monotone-in-block-height", json!({"cfg": format!("{cfg:?}"), "t": t, "amp": mine, "prev": p}));
            }
        }
        prev = Some(mine);
    }
}

pub fn run_trio_histories(ctx: &Ctx, shard: u64, acc: &mut Acc, n_hist: u64, steps: u64, prop: &str) {
    let ph = hash_str("trio-histories");
    for h in 0..ctx.scaled(n_hist) {
        let hid = 1_200_000_000 + h;
        if let Some(rp) = &ctx.replay {
            if rp.history != hid {
                continue;
            }
        }
        acc.history = hid;
        let mut r = Rng::from_parts(&[ctx.seed, ph, shard, h]);
        run_history(acc, &mut r, shard + h * 3, steps, prop);
    }
}

pub fn run(ctx: &Ctx) -> (CheckMeta, Acc) {
    let per_shard = ctx.scaled(ctx.tier.pick(20_000, 600_000));
    let n_hist = ctx.tier.pick(3, 190);
    let steps = ctx.tier.pick(100, 250);
    let ph = hash_str("C04");
    let total = run_shards(ctx, 16, |sh, acc| {
        let (lo, hi) = match &ctx.replay {
            Some(r) if r.history >= 1_000_000_000 => (0, 0),
            Some(r) => (r.history, r.history + 1),
            None => (0, per_shard),
        };
        for i in lo..hi {
            acc.history = i;
            let mut r = Rng::from_parts(&[ctx.seed, ph, sh, i]);
            if i % 8 == 7 {
                pure_amp_case(acc, &mut r);
            } else {
                pure_case(acc, &mut r);
            }
        }
        if ctx.replay.as_ref().map(|r| r.history >= 1_000_000_000).unwrap_or(true) {
            if !ctx.pure_only {
                run_trio_histories(ctx, sh, acc, n_hist, steps, "C04");
            }
        }
    });
    let meta = CheckMeta {
        level: "exploration",
        rule: "e2e: random histories on real three-asset pools created through the factory in all 8 native/cw20 mixes (provide, withdraw via LP Send, swaps in all six directions native and cw20, collect, fee changes and amplification ramps through the factory with candidates on/inside/outside every bound, donations, block advances 0/1/10/1e3/1e4 so that trading happens during ramps, there-and-back probes with rollback); P1 solvency + pro-rata + locked liquidity, P2 D* per LP (exact solver, raw base units, Ann=3A), P3, P4(i) exact equality of proceeds+fees with the pure swap_to on the reserves/direction/amp/block the contract should have used + exact fee split, P4(ii) against the independent curve at my own linear A(t), P5 effective amp (hook vs own formula, bounds, monotone, constant after end), P6 ramp admission. pure: swap_to / compute_amp_factor on reserves in [1e6, 2^110], amp in [1,1e6]. distinct = distinct (case kind, amp bucket, magnitude, imbalance class, outcome, direction / op-sequence) tuples.".to_string(),
        assumptions: vec![
            "oracle: exact U1024 bisection; allowance: D within 4 units, y within 3 units; larger deviations are classified (imbalance class x dust/large) and matched against known_findings.json".into(),
            "P2 is judged across steps whose effective amplification is unchanged (a ramp step alone changes D by definition)".into(),
        ],
        obligations: vec!["check.P1".into(), "check.P2".into(), "check.P3.e2e".into(), "check.P4.i".into(), "check.P4.ii.e2e".into(), "check.P5".into(), "check.P5.schedule".into(), "check.P6".into(), "ramp.accepted".into(), "ramp.rejected".into(), "check.P4.ii.pure".into(), "check.P3.pure".into(), "check.P5.pure".into()],
    };
    (meta, total)
}
