//! Shared history driver for two-asset pools (constant product and stableswap) created through the
//! real factory. All monitors for C01, C02 (end-to-end), C03 (end-to-end), C07 (pair part),
//! C14 (pair part) and C15 (pair part) run on every step; each violation is tagged with the
//! property it belongs to and only the running property's tags decide the exit code.

use crate::curve;
use crate::rng::{hash_str, Rng};
use crate::rt::{Acc, Ctx};
use crate::wide::*;
use crate::world::*;
use cosmwasm_std::{coin, Addr, Coin, Decimal, Uint128};
use cw_multi_test::App;
use serde_json::{json, Value};
use white_whale_std::pool_network::asset::{Asset, PairType};
use white_whale_std::pool_network::pair as pm;

#[derive(Clone, Copy, PartialEq, Eq, Debug)]
pub enum Kind {
    Cp,
    Stable,
}

pub const MINLIQ: u128 = 1000;

#[derive(Clone, Debug, Default)]
pub struct Obs {
    pub r: [u128; 2],
    pub s: u128,
    pub pend: [u128; 2],
    pub alltime: [u128; 2],
    pub burned: [u128; 2],
    pub bal: [u128; 2],
    pub lp_locked: u128,
    pub supply: [u128; 2],
}

pub struct PairWorld {
    pub app: App,
    pub core: PoolCore,
    pub pair: PairHandle,
    pub kind: Kind,
    pub amp: u64,
    pub fees: [u128; 3],
    pub users: Vec<Addr>,
    pub tokens: Vec<Addr>,
    // C07 shadow ledger
    pub charged: [u128; 2],
    pub sent: [u128; 2],
    pub burned: [u128; 2],
    pub first_deposit_done: bool,
    pub ops: Vec<String>,
    /// list the assets of the next ProvideLiquidity message in reverse pool order
    pub reverse_order: bool,
    /// the pair was instantiated directly by the deployer (not through the factory), cw20 addresses given in upper case
    pub direct: bool,
}

fn fees_of(resp: &pm::ProtocolFeesResponse, assets: &[AssetRef; 2]) -> [u128; 2] {
    let mut out = [0u128; 2];
    for f in &resp.fees {
        for i in 0..2 {
            if f.info == assets[i].info() {
                out[i] = f.amount.u128();
            }
        }
    }
    out
}

impl PairWorld {
    pub fn observe(&self) -> Result<Obs, String> {
        let app = &self.app;
        let p = &self.pair;
        let pool: pm::PoolResponse = query(app, &p.addr, &pm::QueryMsg::Pool {})?;
        let mut o = Obs::default();
        for a in &pool.assets {
            for i in 0..2 {
                if a.info == p.assets[i].info() {
                    o.r[i] = a.amount.u128();
                }
            }
        }
        o.s = pool.total_share.u128();
        let pf: pm::ProtocolFeesResponse = query(app, &p.addr, &pm::QueryMsg::ProtocolFees { asset_id: None, all_time: None })?;
        o.pend = fees_of(&pf, &p.assets);
        let af: pm::ProtocolFeesResponse = query(app, &p.addr, &pm::QueryMsg::ProtocolFees { asset_id: None, all_time: Some(true) })?;
        o.alltime = fees_of(&af, &p.assets);
        let bf: pm::ProtocolFeesResponse = query(app, &p.addr, &pm::QueryMsg::BurnedFees { asset_id: None })?;
        o.burned = fees_of(&bf, &p.assets);
        for i in 0..2 {
            o.bal[i] = p.assets[i].balance(app, &p.addr);
            o.supply[i] = p.assets[i].supply(app);
        }
        o.lp_locked = bal_cw20(app, &p.lp, &p.addr);
        Ok(o)
    }

    pub fn lp_supply(&self) -> u128 {
        supply_cw20(&self.app, &self.pair.lp)
    }

    pub fn log(&mut self, s: String) {
        if self.ops.len() >= 400 {
            self.ops.remove(0);
        }
        self.ops.push(s);
    }

    pub fn tail(&self, n: usize) -> Vec<String> {
        let k = self.ops.len().saturating_sub(n);
        self.ops[k..].to_vec()
    }

    // ----- raw operations ------------------------------------------------------------------

    pub fn provide(&mut self, user: usize, d: [u128; 2], receiver: Option<&Addr>, slip: Option<Decimal>) -> Result<cw_multi_test::AppResponse, String> {
        let u = self.users[user].clone();
        let mut funds: Vec<Coin> = vec![];
        for i in 0..2 {
            match &self.pair.assets[i] {
                AssetRef::Native(dn) => {
                    if d[i] > 0 {
                        funds.push(coin(d[i], dn));
                    }
                }
                AssetRef::Cw20(_) => {
                    // allowance was granted once at world construction (no per-op transactions)
                }
            }
        }
        funds.sort_by(|a, b| a.denom.cmp(&b.denom));
        let msg = pm::ExecuteMsg::ProvideLiquidity {
            assets: if self.reverse_order { [self.pair.assets[1].asset(d[1]), self.pair.assets[0].asset(d[0])] } else { [self.pair.assets[0].asset(d[0]), self.pair.assets[1].asset(d[1])] },
            slippage_tolerance: slip,
            receiver: receiver.map(|r| r.to_string()),
        };
        let pa = self.pair.addr.clone();
        exec(&mut self.app, &u, &pa, &msg, &funds)
    }

    pub fn withdraw(&mut self, user: usize, lp: u128) -> Result<cw_multi_test::AppResponse, String> {
        let u = self.users[user].clone();
        let (lpt, pa) = (self.pair.lp.clone(), self.pair.addr.clone());
        cw20_send(&mut self.app, &lpt, &u, &pa, lp, &pm::Cw20HookMsg::WithdrawLiquidity {})
    }

    pub fn swap(&mut self, user: usize, dir: usize, amount: u128, belief: Option<Decimal>, max_spread: Option<Decimal>, to: Option<&Addr>) -> Result<cw_multi_test::AppResponse, String> {
        let u = self.users[user].clone();
        let pa = self.pair.addr.clone();
        match self.pair.assets[dir].clone() {
            AssetRef::Native(dn) => exec(
                &mut self.app,
                &u,
                &pa,
                &pm::ExecuteMsg::Swap { offer_asset: Asset { info: AssetRef::Native(dn.clone()).info(), amount: Uint128::new(amount) }, belief_price: belief, max_spread, to: to.map(|t| t.to_string()) },
                &[coin(amount, dn)],
            ),
            AssetRef::Cw20(t) => cw20_send(&mut self.app, &t, &u, &pa, amount, &pm::Cw20HookMsg::Swap { belief_price: belief, max_spread, to: to.map(|t| t.to_string()) }),
        }
    }

    pub fn simulate(&self, dir: usize, amount: u128) -> Result<pm::SimulationResponse, String> {
        query(&self.app, &self.pair.addr, &pm::QueryMsg::Simulation { offer_asset: self.pair.assets[dir].asset(amount) })
    }

    pub fn collect(&mut self, user: usize) -> Result<cw_multi_test::AppResponse, String> {
        let u = self.users[user].clone();
        let pa = self.pair.addr.clone();
        exec(&mut self.app, &u, &pa, &pm::ExecuteMsg::CollectProtocolFees {}, &[])
    }

    pub fn set_fees(&mut self, t: [u128; 3]) -> Result<cw_multi_test::AppResponse, String> {
        let (o, f, pa) = (self.core.owner.clone(), self.core.factory.clone(), self.pair.addr.clone());
        if self.direct {
            return exec(&mut self.app, &o, &pa, &pm::ExecuteMsg::UpdateConfig { owner: None, fee_collector_addr: None, pool_fees: Some(pool_fee(t)), feature_toggle: None }, &[]);
        }
        exec(
            &mut self.app,
            &o,
            &f,
            &white_whale_std::pool_network::factory::ExecuteMsg::UpdatePairConfig { pair_addr: pa.to_string(), owner: None, fee_collector_addr: None, pool_fees: Some(pool_fee(t)), feature_toggle: None },
            &[],
        )
    }
}

pub const USER_FUNDS: u128 = 1u128 << 124;

pub fn build_pair_world(r: &mut Rng, kind: Kind, variant: u64) -> PairWorld {
    build_pair_world_opt(r, kind, variant, false)
}

/// `allow_direct`: one world in five is a pair instantiated directly by the deployer (only the pool history workloads
/// ask for it; C15 / C17 drive their pairs through the factory)
pub fn build_pair_world_opt(r: &mut Rng, kind: Kind, variant: u64, allow_direct: bool) -> PairWorld {
    let owner = Addr::unchecked("owner");
    let users: Vec<Addr> = vec![Addr::unchecked("user0"), Addr::unchecked("user1"), Addr::unchecked("user2"), Addr::unchecked("attacker")];
    let kinds = [(true, true), (true, false), (false, true), (false, false)][(variant % 4) as usize];
    let decs: [u8; 2] = match kind {
        Kind::Cp => *r.pick(&[[6u8, 6u8], [6, 18], [18, 6], [8, 6], [0, 6]]),
        Kind::Stable => *r.pick(&[[6u8, 6u8], [6, 8], [8, 6], [6, 18], [18, 6], [4, 5]]),
    };
    // every third world with a native second asset uses a token-factory style denom for it
    let denom1: &str = if kinds.1 && (variant / 4) % 3 == 0 { "factory/migaloo1creatoraddressxyz/ubbb" } else { "ubbb" };
    let mut balances = vec![];
    for u in users.iter().chain(std::iter::once(&owner)) {
        let mut c = vec![];
        if kinds.0 {
            c.push(coin(USER_FUNDS, "uaaa"));
        }
        if kinds.1 {
            c.push(coin(USER_FUNDS, denom1));
        }
        c.push(coin(USER_FUNDS, "uzzz"));
        balances.push((u.clone(), c));
    }
    let mut app = new_app(balances);
    let core = deploy_pool_core(&mut app, &owner);
    let mut tokens = vec![];
    let mut mk = |app: &mut App, native: bool, denom: &str, dec: u8, tokens: &mut Vec<Addr>| -> AssetRef {
        if native {
            add_native_decimals(app, &owner, &core.factory, denom, dec);
            AssetRef::Native(denom.to_string())
        } else {
            let bals: Vec<(Addr, u128)> = users.iter().chain(std::iter::once(&owner)).map(|u| (u.clone(), USER_FUNDS)).collect();
            let t = create_cw20(app, &core.codes, &owner, &denom.to_uppercase()[..4.min(denom.len())].to_string(), dec, &bals, None);
            tokens.push(t.clone());
            AssetRef::Cw20(t)
        }
    };
    let a0 = mk(&mut app, kinds.0, "uaaa", decs[0], &mut tokens);
    let a1 = mk(&mut app, kinds.1, if kinds.1 { denom1 } else { "ubbb" }, decs[1], &mut tokens);
    let fees = r.fee_triple();
    let (pt, amp) = match kind {
        Kind::Cp => (PairType::ConstantProduct, 0),
        Kind::Stable => {
            let amp = *r.pick(&[1u64, 2, 10, 85, 100, 1000, 50_000, 1_000_000]);
            let amp = if r.chance(1, 3) { r.range(1, 1_000_000) } else { amp };
            (PairType::StableSwap { amp }, amp)
        }
    };
    // one world in five does not go through the factory: the deployer instantiates the pair code directly and writes
    // cw20 addresses in upper case (accepted and normalised by the pair); the deployer is then the pair's owner
    let direct = allow_direct && (variant / 4) % 5 == 2;
    let pair = if direct {
        let up = |a: &AssetRef| match a {
            AssetRef::Cw20(t) => white_whale_std::pool_network::asset::AssetInfo::Token { contract_addr: t.to_string().to_uppercase() },
            other => other.info(),
        };
        let addr = inst(
            &mut app,
            core.codes.pair,
            &owner,
            &pm::InstantiateMsg { asset_infos: [up(&a0), up(&a1)], token_code_id: core.codes.token, asset_decimals: decs, pool_fees: pool_fee(fees), fee_collector_addr: core.collector.to_string(), pair_type: pt, token_factory_lp: false },
            &[],
            "directly instantiated pair",
            None,
        )
        .expect("instantiate pair directly");
        let info: white_whale_std::pool_network::asset::PairInfo = query(&app, &addr, &pm::QueryMsg::Pair {}).expect("pair info");
        let lp = match info.liquidity_token {
            white_whale_std::pool_network::asset::AssetInfo::Token { contract_addr } => Addr::unchecked(contract_addr),
            white_whale_std::pool_network::asset::AssetInfo::NativeToken { denom } => Addr::unchecked(denom),
        };
        PairHandle { addr, lp, assets: [a0, a1], decimals: info.asset_decimals }
    } else {
        create_pair(&mut app, &owner, &core.factory, [a0, a1], pool_fee(fees), pt).expect("create pair")
    };
    tokens.push(pair.lp.clone());
    for a in &pair.assets {
        if let AssetRef::Cw20(t) = a {
            for u in &users {
                cw20_allow(&mut app, t, u, &pair.addr, u128::MAX / 2);
            }
        }
    }
    PairWorld { app, core, pair, kind, amp, fees, users, tokens, charged: [0; 2], sent: [0; 2], burned: [0; 2], first_deposit_done: false, ops: vec![], reverse_order: false, direct }
}

fn u(s: &str) -> u128 {
    s.parse::<u128>().unwrap_or(u128::MAX)
}

fn viol_detail(wd: &PairWorld, extra: Value) -> Value {
    json!({"kind": format!("{:?}", wd.kind), "amp": wd.amp, "assets": [wd.pair.assets[0].id(), wd.pair.assets[1].id()],
           "decimals": wd.pair.decimals, "fees_protocol_swap_burn": [wd.fees[0].to_string(), wd.fees[1].to_string(), wd.fees[2].to_string()],
           "last_ops": wd.tail(25), "extra": extra})
}

/// normalise a base-unit amount of asset i to 18 decimals
pub fn norm(x: u128, dec: u8) -> U1024 {
    w(x) * pow10(18 - dec as u32)
}

pub fn leak_class(leak: f64) -> &'static str {
    if leak <= 1e-12 {
        "leak<=1e-12"
    } else if leak <= 1e-6 {
        "leak<=1e-6"
    } else {
        "leak>1e-6"
    }
}

pub fn imbalance_class(x: &U1024, y: &U1024) -> &'static str {
    let (hi, lo) = if x > y { (x, y) } else { (y, x) };
    if *hi <= *lo * w(10) {
        "imb<=10"
    } else if *hi <= *lo * w(1_000_000) {
        "imb(10,1e6]"
    } else {
        "imb>1e6"
    }
}

/// D* for a 2-asset stable pool on 18-decimal normalised reserves
pub fn stable_d(wd: &PairWorld, r: [u128; 2]) -> U1024 {
    let x = norm(r[0], wd.pair.decimals[0]);
    let y = norm(r[1], wd.pair.decimals[1]);
    curve::d_star(&[x, y], wd.amp, None)
}

/// Universal per-step checks comparing `pre` and `post` observations.
fn check_step(acc: &mut Acc, wd: &PairWorld, pre: &Obs, post: &Obs, what: &str) {
    // I1 solvency
    acc.count("check.I1");
    for i in 0..2 {
        let need = w(post.r[i]) + w(post.pend[i]);
        if w(post.bal[i]) < need {
            let p = if wd.kind == Kind::Cp { "C01" } else { "C03" };
            acc.violation(p, "I1/balance<reserve+pending", viol_detail(wd, json!({"asset": i, "bal": post.bal[i].to_string(), "reserve": post.r[i].to_string(), "pending": post.pend[i].to_string(), "step": what})));
        }
    }
    // I5 locked minimum
    if wd.first_deposit_done {
        acc.count("check.I5");
        let min = if wd.kind == Kind::Cp { MINLIQ } else { 2 * MINLIQ };
        if post.lp_locked < min {
            let p = if wd.kind == Kind::Cp { "C01" } else { "C03" };
            acc.violation(p, "I5/locked-minimum-liquidity-left-the-pool", viol_detail(wd, json!({"lp_locked": post.lp_locked.to_string(), "step": what})));
        }
    }
    // C07 counters monotone
    acc.count("check.A1.monotone");
    for i in 0..2 {
        if post.alltime[i] < pre.alltime[i] || post.burned[i] < pre.burned[i] {
            acc.violation("C07", "A1/all-time-counter-decreased", viol_detail(wd, json!({"asset": i, "step": what})));
        }
    }
    // value per LP
    if pre.s > 0 && post.s > 0 {
        match wd.kind {
            Kind::Cp => {
                acc.count("check.I2");
                let lhs = w(post.r[0]) * w(post.r[1]) * w(pre.s) * w(pre.s);
                let rhs = w(pre.r[0]) * w(pre.r[1]) * w(post.s) * w(post.s);
                if lhs < rhs {
                    acc.violation("C01", &format!("I2/lp-value-decreased/{}", what.split(' ').next().unwrap_or("")), viol_detail(wd, json!({"pre": format!("{pre:?}"), "post": format!("{post:?}"), "step": what})));
                } else if !rhs.is_zero() {
                    let slack = diff_f64(&lhs, &rhs) / f64_of(&rhs);
                    acc.slack("I2.rel", slack, || what.to_string());
                }
            }
            Kind::Stable => {
                // judged in check_stable_lp (deposits / withdrawals only)
            }
        }
    }
}

/// Stableswap: invariant per LP on deposits and withdrawals (S4).
fn check_stable_lp(acc: &mut Acc, wd: &PairWorld, pre: &Obs, post: &Obs, what: &str) {
    if wd.kind != Kind::Stable || pre.s == 0 || post.s == 0 {
        return;
    }
    if pre.r[0] == 0 || pre.r[1] == 0 || post.r[0] == 0 || post.r[1] == 0 {
        return;
    }
    let one = [10u128.pow(wd.pair.decimals[0] as u32), 10u128.pow(wd.pair.decimals[1] as u32)];
    // domain of the statement: at least one whole token of each asset, amounts <= 2^100
    if pre.r[0] < one[0] || pre.r[1] < one[1] || post.r[0] < one[0] || post.r[1] < one[1] {
        acc.count("S4.skipped.below-one-token");
        return;
    }
    if pre.r.iter().chain(post.r.iter()).any(|x| *x > (1u128 << 100)) {
        acc.count("S4.skipped.above-2^100");
        return;
    }
    acc.count("check.S4");
    let d0 = stable_d(wd, pre.r);
    let d1 = stable_d(wd, post.r);
    let mind = wd.pair.decimals[0].min(wd.pair.decimals[1]);
    let delta = w(4) * pow10(18 - mind as u32);
    // D1*S0 >= (D0 - delta)*S1
    let lhs = d1 * w(pre.s);
    let base = if d0 > delta { d0 - delta } else { U1024::zero() };
    let rhs = base * w(post.s);
    let x = norm(pre.r[0], wd.pair.decimals[0]);
    let y = norm(pre.r[1], wd.pair.decimals[1]);
    let imb = imbalance_class(&x, &y);
    let eq = if wd.pair.decimals[0] == wd.pair.decimals[1] { "equal-decimals" } else { "unequal-decimals" };
    let op = what.split(' ').next().unwrap_or("");
    if lhs < rhs {
        // relative size of the drop of D per LP
        let exact_rhs = d0 * w(post.s);
        let rel = diff_f64(&exact_rhs, &lhs) / f64_of(&exact_rhs).max(1.0);
        let mag = leak_class(rel);
        acc.violation("C03", &format!("S4/{imb}/{mag}"), viol_detail(wd, json!({"op": op, "decimals_class": eq, "pre": format!("{pre:?}"), "post": format!("{post:?}"), "D0": d0.to_string(), "D1": d1.to_string(), "rel_drop": rel, "step": what})));
    } else {
        let exact_rhs = d0 * w(post.s);
        let rel = diff_f64(&lhs, &exact_rhs) / f64_of(&exact_rhs).max(1.0);
        acc.slack(&format!("S4.rel.{eq}.{imb}"), rel, || what.to_string());
    }
}

pub struct SwapPlan {
    pub user: usize,
    pub dir: usize,
    pub amount: u128,
    pub belief: Option<u128>,
    pub max_spread: Option<u128>,
    pub to: Option<usize>,
}

/// Executes a swap with all swap-related monitors (C02 e2e, C03 S1/S2, C07, C14, C15).
pub fn monitored_swap(acc: &mut Acc, wd: &mut PairWorld, pl: &SwapPlan) -> bool {
    let Ok(pre) = wd.observe() else { return false };
    let ask = 1 - pl.dir;
    let sim = wd.simulate(pl.dir, pl.amount);
    // C02 on the quote itself: the Simulation answer must be the floor formula on the reserves reported by Pool{}
    if wd.kind == Kind::Cp {
        if let Ok(s) = &sim {
            acc.count("check.E.simulation");
            let gross_sim = w(s.return_amount.u128()) + w(s.swap_fee_amount.u128()) + w(s.protocol_fee_amount.u128()) + w(s.burn_fee_amount.u128());
            let og = w(pre.r[ask]) * w(pl.amount) / (w(pre.r[pl.dir]) + w(pl.amount));
            let want = [mul_share_floor(og, wd.fees[0]), mul_share_floor(og, wd.fees[1]), mul_share_floor(og, wd.fees[2])];
            if gross_sim != og || w(s.protocol_fee_amount.u128()) != want[0] || w(s.swap_fee_amount.u128()) != want[1] || w(s.burn_fee_amount.u128()) != want[2] {
                acc.violation("C02", "C02.E/simulation!=floor-formula-on-reported-reserves", viol_detail(wd, json!({"sim": format!("{s:?}"), "oracle_gross": og.to_string(), "reserves": [pre.r[0].to_string(), pre.r[1].to_string()], "pending": [pre.pend[0].to_string(), pre.pend[1].to_string()], "dir": pl.dir, "amount": pl.amount.to_string()})));
            }
        }
    }
    let receiver = pl.to.map(|t| wd.users[t].clone()).unwrap_or(wd.users[pl.user].clone());
    let sender = wd.users[pl.user].clone();
    let rb_pre = wd.pair.assets[ask].balance(&wd.app, &receiver);
    let sb_pre = wd.pair.assets[pl.dir].balance(&wd.app, &sender);
    let what = format!("swap user{} dir{} amount={} belief={:?} max_spread={:?} to={:?}", pl.user, pl.dir, pl.amount, pl.belief, pl.max_spread, pl.to);
    wd.log(what.clone());
    let res = wd.swap(pl.user, pl.dir, pl.amount, pl.belief.map(dec), pl.max_spread.map(dec), pl.to.map(|t| wd.users[t].clone()).as_ref());
    match res {
        Err(e) => {
            acc.count("swap.rejected");
            if e.contains("TRAP") {
                acc.count("swap.trapped");
            }
            // C15 converse: a rejection *for slippage* must have exceeded the limit
            if e.contains("Spread limit exceeded") {
                acc.count("swap.rejected.slippage");
                if let Ok(s) = &sim {
                    check_slippage_reject(acc, wd, pl, s, &what);
                }
            }
            false
        }
        Ok(resp) => {
            acc.count("swap.ok");
            let Ok(post) = wd.observe() else {
                acc.violation(if wd.kind == Kind::Cp { "C01" } else { "C03" }, "I1/pool-query-fails-after-swap", viol_detail(wd, json!({"step": what})));
                return true;
            };
            let at = attrs_of_action(&resp, &wd.pair.addr, "swap");
            let a = at.last().cloned().unwrap_or_default();
            let g = |k: &str| a.get(k).map(|s| u(s)).unwrap_or(u128::MAX);
            let (ret, spread, sf, pf, bf) = (g("return_amount"), g("spread_amount"), g("swap_fee_amount"), g("protocol_fee_amount"), g("burn_fee_amount"));
            // ---- C14: simulation == execution == reality
            acc.count("check.C14.swap");
            match &sim {
                Ok(s) => {
                    if s.return_amount.u128() != ret || s.spread_amount.u128() != spread || s.swap_fee_amount.u128() != sf || s.protocol_fee_amount.u128() != pf || s.burn_fee_amount.u128() != bf {
                        acc.violation("C14", "Q1/simulation!=execution-attributes", viol_detail(wd, json!({"sim": format!("{s:?}"), "attrs": a, "step": what})));
                    }
                }
                Err(e) => {
                    acc.violation("C14", "Q1/simulation-failed-but-swap-succeeded", viol_detail(wd, json!({"sim_err": e, "step": what})));
                }
            }
            let rb_post = wd.pair.assets[ask].balance(&wd.app, &receiver);
            if receiver != wd.pair.addr {
                if rb_post.wrapping_sub(rb_pre) != ret {
                    acc.violation("C14", "Q2/receiver-delta!=return_amount", viol_detail(wd, json!({"delta": rb_post as f64 - rb_pre as f64, "ret": ret.to_string(), "step": what})));
                }
            }
            let sb_post = wd.pair.assets[pl.dir].balance(&wd.app, &sender);
            if sb_pre.wrapping_sub(sb_post) != pl.amount {
                acc.violation("C14", "Q2/sender-paid!=offer", viol_detail(wd, json!({"step": what})));
            }
            if post.pend[ask].wrapping_sub(pre.pend[ask]) != pf || post.pend[pl.dir] != pre.pend[pl.dir] {
                acc.violation("C14", "Q3/pending-fee-delta!=protocol_fee", viol_detail(wd, json!({"pre": format!("{pre:?}"), "post": format!("{post:?}"), "pf": pf.to_string(), "step": what})));
            }
            if pre.supply[ask].wrapping_sub(post.supply[ask]) != bf {
                // C07: a burn fee that was charged (and counted) must really leave circulation
                acc.violation("C07", "A3/burn-fee-charged-but-supply-not-reduced-by-it", viol_detail(wd, json!({"asset": wd.pair.assets[ask].id(), "pre_supply": pre.supply[ask].to_string(), "post_supply": post.supply[ask].to_string(), "burn_fee": bf.to_string(), "step": what})));
                acc.violation("C14", "Q4/supply-drop!=burn_fee", viol_detail(wd, json!({"pre_supply": pre.supply[ask].to_string(), "post_supply": post.supply[ask].to_string(), "bf": bf.to_string(), "step": what})));
            }
            // pair balances: offer side +offer, ask side -(ret+burn)
            if post.bal[pl.dir].wrapping_sub(pre.bal[pl.dir]) != pl.amount || pre.bal[ask].wrapping_sub(post.bal[ask]) != ret.wrapping_add(bf) {
                acc.violation("C14", "Q5/pool-balance-delta", viol_detail(wd, json!({"pre": format!("{pre:?}"), "post": format!("{post:?}"), "step": what})));
            }
            // ---- C07 ledger
            wd.charged[ask] += pf;
            wd.burned[ask] += bf;
            acc.count("check.A3.burn-leaves-circulation");
            check_ledger(acc, wd, &post, &what);
            // ---- C02 / C03 math on the real transfer
            let gross = w(ret) + w(sf) + w(pf) + w(bf);
            match wd.kind {
                Kind::Cp => {
                    acc.count("check.E.e2e");
                    let og = w(pre.r[ask]) * w(pl.amount) / (w(pre.r[pl.dir]) + w(pl.amount));
                    if og != gross {
                        acc.violation("C02", "C02.E/e2e/sum!=gross", viol_detail(wd, json!({"gross_paid": gross.to_string(), "oracle": og.to_string(), "pre": format!("{pre:?}"), "step": what})));
                    }
                    let want = [mul_share_floor(og, wd.fees[0]), mul_share_floor(og, wd.fees[1]), mul_share_floor(og, wd.fees[2])];
                    if w(pf) != want[0] || w(sf) != want[1] || w(bf) != want[2] {
                        acc.violation("C02", "C02.E/e2e/fee-split", viol_detail(wd, json!({"got": [pf.to_string(), sf.to_string(), bf.to_string()], "want": [want[0].to_string(), want[1].to_string(), want[2].to_string()], "step": what})));
                    }
                    if ret >= pre.r[ask] {
                        acc.violation("C02", "C02.E/e2e/return>=ask-reserve", viol_detail(wd, json!({"step": what})));
                    }
                }
                Kind::Stable => {
                    check_stable_swap_bound(acc, wd, &pre, &post, pl.dir, pl.amount, gross, &what);
                }
            }
            // ---- C15 on success
            check_slippage_ok(acc, wd, pl, gross, spread, &what);
            // ---- generic step checks
            check_step(acc, wd, &pre, &post, &what);
            true
        }
    }
}

/// C03 S1/S2 on a real swap.
fn check_stable_swap_bound(acc: &mut Acc, wd: &PairWorld, pre: &Obs, post: &Obs, dir: usize, offer: u128, gross: U1024, what: &str) {
    let ask = 1 - dir;
    let one = [10u128.pow(wd.pair.decimals[0] as u32), 10u128.pow(wd.pair.decimals[1] as u32)];
    if pre.r[0] < one[0] || pre.r[1] < one[1] || pre.r[0] > (1u128 << 100) || pre.r[1] > (1u128 << 100) || offer > (1u128 << 100) {
        acc.count("S1.skipped.out-of-domain");
        return;
    }
    acc.count("check.S1.e2e");
    if gross > w(pre.r[ask]) {
        acc.violation("C03", "S2/gross>ask-reserve", viol_detail(wd, json!({"step": what})));
    }
    let bound = stable_swap_floor(wd.amp, pre.r[dir], pre.r[ask], offer, wd.pair.decimals[dir], wd.pair.decimals[ask]);
    // ask reserve after the swap as far as the curve is concerned: pre reserve - gross
    let after = norm(pre.r[ask], wd.pair.decimals[ask]) - gross * pow10(18 - wd.pair.decimals[ask] as u32);
    let unit = pow10(18 - wd.pair.decimals[ask] as u32);
    if after < bound {
        let deficit = diff_f64(&bound, &after) / f64_of(&unit);
        let mag = if deficit <= 10.0 { "<=10u" } else if deficit <= 1e3 { "<=1e3u" } else { ">1e3u" };
        acc.violation("C03", &format!("S1/e2e/ask-reserve-below-curve/{mag}"), viol_detail(wd, json!({"after_norm": after.to_string(), "bound": bound.to_string(), "deficit_units": deficit, "pre": format!("{pre:?}"), "post": format!("{post:?}"), "step": what})));
    } else {
        acc.slack("S1.e2e.units", diff_f64(&after, &bound) / f64_of(&unit), || what.to_string());
    }
}

/// y*(D* - 4u, X + offer) - 3u in 18-decimal normalised units (the lowest ask reserve the curve allows)
pub fn stable_swap_floor(amp: u64, offer_pool: u128, ask_pool: u128, offer: u128, od: u8, ad: u8) -> U1024 {
    let x = norm(offer_pool, od);
    let y = norm(ask_pool, ad);
    let unit = pow10(18 - ad as u32);
    let d = curve::d_star(&[x, y], amp, None);
    let dd = if d > unit * w(4) { d - unit * w(4) } else { U1024::zero() };
    let xn = x + norm(offer, od);
    let ys = curve::y_star(&[xn], amp, &dd, Some(y));
    if ys > unit * w(3) {
        ys - unit * w(3)
    } else {
        U1024::zero()
    }
}

fn eff_spread(ms: Option<u128>) -> u128 {
    ms.unwrap_or(ONE18 / 100).min(ONE18 / 2)
}

fn inv18(p: u128) -> Option<U1024> {
    if p == 0 {
        None
    } else {
        Some(w(ONE18) * w(ONE18) / w(p))
    }
}

/// C15: accepted swap satisfied its limit (at the interface's 18-decimal resolution)
fn check_slippage_ok(acc: &mut Acc, wd: &PairWorld, pl: &SwapPlan, gross: U1024, spread: u128, what: &str) {
    acc.count("check.C15.swap-accepted");
    let s = eff_spread(pl.max_spread);
    match pl.belief {
        None => {
            let den = gross + w(spread);
            if den.is_zero() {
                return;
            }
            let ratio = w(spread) * w(ONE18) / den;
            if ratio > w(s) {
                acc.violation("C15", "L1/accepted-above-max-spread", viol_detail(wd, json!({"ratio18": ratio.to_string(), "limit18": s.to_string(), "step": what})));
            } else {
                acc.slack("L1.limit-minus-ratio", diff_f64(&w(s), &ratio), || what.to_string());
            }
        }
        Some(p) => {
            let Some(inv) = inv18(p) else { return };
            let expected = w(pl.amount) * inv / w(ONE18);
            if gross < expected && !expected.is_zero() {
                let ratio = (expected - gross) * w(ONE18) / expected;
                if ratio > w(s) {
                    acc.violation("C15", "L2/accepted-below-belief-price-bound", viol_detail(wd, json!({"expected": expected.to_string(), "gross": gross.to_string(), "ratio18": ratio.to_string(), "limit18": s.to_string(), "step": what})));
                }
                // statement form ("up to one base unit"), judged where the 18-decimal resolution is finer than a unit
                if expected <= w(ONE18) {
                    let lhs = (gross + w(1)) * w(ONE18);
                    let rhs = expected * w(ONE18 - s);
                    if lhs < rhs {
                        acc.violation("C15", "L2/accepted-below-(offer/p)(1-s)-1", viol_detail(wd, json!({"expected": expected.to_string(), "gross": gross.to_string(), "step": what})));
                    }
                }
            }
        }
    }
}

/// C15 converse: rejected with the slippage error => the limit really was exceeded
fn check_slippage_reject(acc: &mut Acc, wd: &PairWorld, pl: &SwapPlan, sim: &pm::SimulationResponse, what: &str) {
    acc.count("check.C15.swap-rejected-for-slippage");
    let s = eff_spread(pl.max_spread);
    let gross = w(sim.return_amount.u128()) + w(sim.swap_fee_amount.u128()) + w(sim.protocol_fee_amount.u128()) + w(sim.burn_fee_amount.u128());
    let spread = sim.spread_amount.u128();
    let within = match pl.belief {
        None => {
            let den = gross + w(spread);
            !den.is_zero() && w(spread) * w(ONE18) / den <= w(s)
        }
        Some(p) => match inv18(p) {
            None => false,
            Some(inv) => {
                let expected = w(pl.amount) * inv / w(ONE18);
                gross >= expected || expected.is_zero() || (expected - gross) * w(ONE18) / expected <= w(s)
            }
        },
    };
    if within {
        acc.violation("C15", "L3/within-limit-but-rejected-for-slippage", viol_detail(wd, json!({"sim": format!("{sim:?}"), "step": what})));
    }
}

/// C07 A1: ledger query == charged - sent; all-time == charged; burned == sum of burns
pub fn check_ledger(acc: &mut Acc, wd: &PairWorld, post: &Obs, what: &str) {
    acc.count("check.A1");
    for i in 0..2 {
        let want = wd.charged[i].wrapping_sub(wd.sent[i]);
        if post.pend[i] != want {
            let class = if post.pend[i] < want { "ledger<charged-sent" } else { "ledger>charged-sent" };
            acc.violation("C07", &format!("A1/pair/{class}"), viol_detail(wd, json!({"asset": i, "ledger": post.pend[i].to_string(), "charged": wd.charged[i].to_string(), "sent": wd.sent[i].to_string(), "step": what})));
        }
        if post.alltime[i] != wd.charged[i] {
            acc.violation("C07", "A1/pair/all-time!=sum-of-charges", viol_detail(wd, json!({"asset": i, "alltime": post.alltime[i].to_string(), "charged": wd.charged[i].to_string(), "step": what})));
        }
        if post.burned[i] != wd.burned[i] {
            acc.violation("C07", "A1/pair/burned-counter!=sum-of-burns", viol_detail(wd, json!({"asset": i, "burned": post.burned[i].to_string(), "model": wd.burned[i].to_string(), "step": what})));
        }
    }
}

/// CollectProtocolFees with C07 A2 (only pool->collector of exactly the pending amounts)
pub fn monitored_collect(acc: &mut Acc, wd: &mut PairWorld, user: usize) {
    let Ok(pre) = wd.observe() else { return };
    let bal_pre = all_balances(&wd.app, &wd.tokens);
    let what = format!("collect user{user} pending={:?}", pre.pend);
    wd.log(what.clone());
    let cls = |p: u128| if p == 0 { "0" } else if p <= 1000 { "1..1000" } else { ">1000" };
    match wd.collect(user) {
        Err(_) => {
            acc.count("collect.rejected");
        }
        Ok(_) => {
            acc.count("collect.ok");
            acc.count(&format!("collect.pending-class.{}", cls(pre.pend[0].max(pre.pend[1]))));
            if pre.pend.iter().any(|p| *p > 0 && *p <= 1000) {
                acc.count("collect.with-subthreshold-pending");
            }
            let Ok(post) = wd.observe() else { return };
            let bal_post = all_balances(&wd.app, &wd.tokens);
            let diff = balance_diff(&bal_pre, &bal_post);
            acc.count("check.A2");
            // expected: pair -pend_i, collector +pend_i for each asset, nothing else
            let mut expect: Vec<(String, String, i128)> = vec![];
            for i in 0..2 {
                if pre.pend[i] > 0 {
                    expect.push((wd.pair.addr.to_string(), wd.pair.assets[i].id(), -(pre.pend[i] as i128)));
                    expect.push((wd.core.collector.to_string(), wd.pair.assets[i].id(), pre.pend[i] as i128));
                }
            }
            let mut got: Vec<(String, String, i128)> = diff.iter().map(|(a, s, b, c)| (a.clone(), s.clone(), *c as i128 - *b as i128)).collect();
            got.sort();
            expect.sort();
            // what actually reached the collector
            for i in 0..2 {
                let d = got.iter().find(|(a, s, _)| *a == wd.core.collector.to_string() && *s == wd.pair.assets[i].id()).map(|x| x.2).unwrap_or(0);
                if d > 0 {
                    wd.sent[i] += d as u128;
                }
            }
            // every transfer made is the full pending amount of its asset, pool -> collector, nothing else moves;
            // an asset whose pending amount is not transferred must stay in the ledger (judged by A1)
            let mut allowed = true;
            let mut explained: Vec<(String, String, i128)> = vec![];
            for i in 0..2 {
                let dp = got.iter().find(|(a, s, _)| *a == wd.pair.addr.to_string() && *s == wd.pair.assets[i].id()).map(|x| x.2).unwrap_or(0);
                let dc = got.iter().find(|(a, s, _)| *a == wd.core.collector.to_string() && *s == wd.pair.assets[i].id()).map(|x| x.2).unwrap_or(0);
                if dp == 0 && dc == 0 {
                    if pre.pend[i] > 0 {
                        acc.count("collect.deferred-pending-amount");
                    }
                    continue;
                }
                if dp != -(pre.pend[i] as i128) || dc != pre.pend[i] as i128 {
                    allowed = false;
                }
                explained.push((wd.pair.addr.to_string(), wd.pair.assets[i].id(), dp));
                explained.push((wd.core.collector.to_string(), wd.pair.assets[i].id(), dc));
            }
            explained.sort();
            if !allowed || explained != got {
                acc.violation("C07", "A2/pair/collect/unexpected-balance-changes", viol_detail(wd, json!({"pending": format!("{:?}", pre.pend), "expected_if_all_sent": format!("{expect:?}"), "got": format!("{got:?}"), "step": what})));
            }
            if post.r != pre.r || post.s != pre.s {
                let sub = pre.pend.iter().any(|p| *p > 0 && *p <= 1000);
                let sig = if sub { "A2/pair/collect/reserves-changed/pending<=1000" } else { "A2/pair/collect/reserves-changed" };
                acc.violation("C07", sig, viol_detail(wd, json!({"pre": format!("{pre:?}"), "post": format!("{post:?}"), "step": what})));
            }
            check_ledger(acc, wd, &post, &what);
            check_step(acc, wd, &pre, &post, &what);
        }
    }
}

pub fn monitored_provide(acc: &mut Acc, wd: &mut PairWorld, user: usize, d: [u128; 2], receiver: Option<usize>, slip: Option<u128>) -> bool {
    let Ok(pre) = wd.observe() else { return false };
    let what = format!("provide user{user} d={d:?} receiver={receiver:?} slip={slip:?}");
    wd.log(what.clone());
    let rcv = receiver.map(|t| wd.users[t].clone()).unwrap_or(wd.users[user].clone());
    let lp_pre = bal_cw20(&wd.app, &wd.pair.lp, &rcv);
    let ub_pre = [wd.pair.assets[0].balance(&wd.app, &wd.users[user]), wd.pair.assets[1].balance(&wd.app, &wd.users[user])];
    let res = wd.provide(user, d, receiver.map(|t| wd.users[t].clone()).as_ref(), slip.map(dec));
    match res {
        Err(e) => {
            acc.count("provide.rejected");
            if e.contains("MaxSlippageAssertion") || e.contains("Operation exceeds max slippage") || e.contains("slippage") {
                acc.count("provide.rejected.slippage");
                check_deposit_slippage(acc, wd, &pre, d, slip, false, 0, &what);
            }
            false
        }
        Ok(_) => {
            acc.count("provide.ok");
            let Ok(post) = wd.observe() else {
                acc.violation(if wd.kind == Kind::Cp { "C01" } else { "C03" }, "I1/pool-query-fails-after-provide", viol_detail(wd, json!({"step": what})));
                return true;
            };
            let minted_user = bal_cw20(&wd.app, &wd.pair.lp, &rcv) - lp_pre;
            let ub_post = [wd.pair.assets[0].balance(&wd.app, &wd.users[user]), wd.pair.assets[1].balance(&wd.app, &wd.users[user])];
            for i in 0..2 {
                if ub_pre[i] - ub_post[i] != d[i] || post.bal[i] - pre.bal[i] != d[i] {
                    acc.violation(if wd.kind == Kind::Cp { "C01" } else { "C03" }, "I3/deposit-amount-not-taken-from-sender", viol_detail(wd, json!({"step": what})));
                }
            }
            let pfx = if wd.kind == Kind::Cp { "C01" } else { "C03" };
            if pre.s == 0 {
                wd.first_deposit_done = true;
                acc.count("provide.first");
                acc.count("check.I5.first");
                match wd.kind {
                    Kind::Cp => {
                        let want = isqrt(w(d[0]) * w(d[1]));
                        if w(minted_user) + w(MINLIQ) != want || post.lp_locked != MINLIQ || post.s != minted_user + MINLIQ {
                            acc.violation("C01", "I5/first-deposit-mint", viol_detail(wd, json!({"minted_user": minted_user.to_string(), "isqrt": want.to_string(), "locked": post.lp_locked.to_string(), "step": what})));
                        }
                    }
                    Kind::Stable => {
                        if post.lp_locked != 2 * MINLIQ || post.s != minted_user + 2 * MINLIQ {
                            acc.violation("C03", "I5/first-deposit-mint", viol_detail(wd, json!({"minted_user": minted_user.to_string(), "locked": post.lp_locked.to_string(), "step": what})));
                        }
                    }
                }
            } else {
                if post.s - pre.s != minted_user {
                    acc.violation(pfx, "I3/minted!=supply-delta", viol_detail(wd, json!({"step": what})));
                }
                if wd.kind == Kind::Cp {
                    acc.count("check.I3.deposit");
                    for i in 0..2 {
                        if w(minted_user) * w(pre.r[i]) > w(d[i]) * w(pre.s) {
                            acc.violation("C01", "I3/deposit-minted-more-than-pro-rata", viol_detail(wd, json!({"asset": i, "minted": minted_user.to_string(), "pre": format!("{pre:?}"), "step": what})));
                        }
                    }
                }
                check_deposit_slippage(acc, wd, &pre, d, slip, true, minted_user, &what);
            }
            check_stable_lp(acc, wd, &pre, &post, &what);
            check_ledger(acc, wd, &post, &what);
            check_step(acc, wd, &pre, &post, &what);
            true
        }
    }
}

/// C15 deposit tolerance: documented bound per pool type, evaluated with independent integer math.
fn check_deposit_slippage(acc: &mut Acc, wd: &PairWorld, pre: &Obs, d: [u128; 2], slip: Option<u128>, accepted: bool, minted: u128, what: &str) {
    let Some(t) = slip else { return };
    if pre.s == 0 || t > ONE18 {
        return;
    }
    let one_minus = w(ONE18 - t);
    // Decimal256 floor semantics: ratio18(a,b) = floor(a*1e18/b); (x * (1-t)) floor at 18 decimals
    let ratio18 = |a: U1024, b: U1024| a * w(ONE18) / b;
    let mul18 = |x: U1024, y: U1024| x * y / w(ONE18);
    let exceeded = match wd.kind {
        Kind::Cp => {
            if pre.r[0] == 0 || pre.r[1] == 0 || d[0] == 0 || d[1] == 0 {
                return;
            }
            mul18(ratio18(w(d[0]), w(d[1])), one_minus) > ratio18(w(pre.r[0]), w(pre.r[1])) || mul18(ratio18(w(d[1]), w(d[0])), one_minus) > ratio18(w(pre.r[1]), w(pre.r[0]))
        }
        Kind::Stable => {
            if !accepted {
                // the minted amount of a rejected deposit is not observable; converse is judged in c15.rs via the pure helper
                return;
            }
            if minted == 0 {
                return;
            }
            let pool_ratio = ratio18(w(pre.r[0]) + w(pre.r[1]), w(pre.s));
            let dep_ratio = ratio18(w(d[0]) + w(d[1]), w(minted));
            mul18(pool_ratio, one_minus) > dep_ratio
        }
    };
    if accepted {
        acc.count("check.C15.deposit-accepted");
        if exceeded {
            acc.violation("C15", "L4/deposit-accepted-beyond-tolerance", viol_detail(wd, json!({"pre": format!("{pre:?}"), "step": what})));
        }
    } else {
        acc.count("check.C15.deposit-rejected-for-slippage");
        if !exceeded {
            acc.violation("C15", "L5/deposit-within-tolerance-rejected-for-slippage", viol_detail(wd, json!({"pre": format!("{pre:?}"), "step": what})));
        }
    }
}

pub fn monitored_withdraw(acc: &mut Acc, wd: &mut PairWorld, user: usize, lp: u128) -> bool {
    let Ok(pre) = wd.observe() else { return false };
    let what = format!("withdraw user{user} lp={lp}");
    wd.log(what.clone());
    let usr = wd.users[user].clone();
    let ub_pre = [wd.pair.assets[0].balance(&wd.app, &usr), wd.pair.assets[1].balance(&wd.app, &usr)];
    let lp_pre = bal_cw20(&wd.app, &wd.pair.lp, &usr);
    match wd.withdraw(user, lp) {
        Err(_) => {
            acc.count("withdraw.rejected");
            false
        }
        Ok(_) => {
            acc.count("withdraw.ok");
            let pfx = if wd.kind == Kind::Cp { "C01" } else { "C03" };
            let Ok(post) = wd.observe() else {
                acc.violation(pfx, "I1/pool-query-fails-after-withdraw", viol_detail(wd, json!({"step": what})));
                return true;
            };
            let ub_post = [wd.pair.assets[0].balance(&wd.app, &usr), wd.pair.assets[1].balance(&wd.app, &usr)];
            let lp_post = bal_cw20(&wd.app, &wd.pair.lp, &usr);
            acc.count("check.I3.withdraw");
            if lp_pre - lp_post != lp || pre.s - post.s != lp {
                acc.violation(pfx, "I3/withdraw-burned!=lp-sent", viol_detail(wd, json!({"step": what})));
            }
            for i in 0..2 {
                let refund = ub_post[i] - ub_pre[i];
                if pre.bal[i] - post.bal[i] != refund {
                    acc.violation(pfx, "I3/withdraw-pool-delta!=refund", viol_detail(wd, json!({"step": what})));
                }
                if w(refund) * w(pre.s) > w(pre.r[i]) * w(lp) {
                    acc.violation(pfx, "I3/withdraw-paid-more-than-pro-rata", viol_detail(wd, json!({"asset": i, "refund": refund.to_string(), "pre": format!("{pre:?}"), "step": what})));
                }
            }
            check_stable_lp(acc, wd, &pre, &post, &what);
            check_ledger(acc, wd, &post, &what);
            check_step(acc, wd, &pre, &post, &what);
            true
        }
    }
}

/// I4 probes with rollback: deposit-then-withdraw and swap there-and-back never profit.
pub fn probes(acc: &mut Acc, wd: &mut PairWorld, r: &mut Rng) {
    let Ok(obs) = wd.observe() else { return };
    if obs.s == 0 || obs.r[0] == 0 || obs.r[1] == 0 {
        return;
    }
    let saved = snap(&wd.app);
    let saved_model = (wd.charged, wd.sent, wd.burned, wd.ops.len());
    let pfx = if wd.kind == Kind::Cp { "C01" } else { "C03" };
    // (a) deposit then withdraw what was minted
    {
        let user = 3;
        let usr = wd.users[user].clone();
        let d = if r.chance(1, 2) {
            let k = r.range128(1, 1_000_000);
            [(obs.r[0] / k).max(1), (obs.r[1] / k).max(1)]
        } else {
            [r.near(obs.r[0], 1u128 << 100), r.near(obs.r[1], 1u128 << 100)]
        };
        let b0 = [wd.pair.assets[0].balance(&wd.app, &usr), wd.pair.assets[1].balance(&wd.app, &usr)];
        let lp0 = bal_cw20(&wd.app, &wd.pair.lp, &usr);
        if wd.provide(user, d, None, None).is_ok() {
            let minted = bal_cw20(&wd.app, &wd.pair.lp, &usr) - lp0;
            if minted > 0 && wd.withdraw(user, minted).is_ok() {
                acc.count("check.I4.deposit-withdraw");
                let b1 = [wd.pair.assets[0].balance(&wd.app, &usr), wd.pair.assets[1].balance(&wd.app, &usr)];
                match wd.kind {
                    Kind::Cp => {
                        for i in 0..2 {
                            if b1[i] > b0[i] {
                                acc.violation("C01", "I4/deposit-then-withdraw-profit", viol_detail(wd, json!({"asset": i, "d": [d[0].to_string(), d[1].to_string()], "gain": (b1[i] - b0[i]).to_string(), "obs": format!("{obs:?}")})));
                            }
                        }
                    }
                    Kind::Stable => {
                        // value measure: the pool's D* must not have dropped (the user's LP is unchanged)
                        if let Ok(after) = wd.observe() {
                            let one = [10u128.pow(wd.pair.decimals[0] as u32), 10u128.pow(wd.pair.decimals[1] as u32)];
                            if obs.r[0] >= one[0] && obs.r[1] >= one[1] && after.r[0] >= one[0] && after.r[1] >= one[1] && obs.r.iter().chain(after.r.iter()).all(|x| *x <= 1u128 << 100) {
                                acc.count("check.S5");
                                let d0 = stable_d(wd, obs.r);
                                let d1 = stable_d(wd, after.r);
                                let mind = wd.pair.decimals[0].min(wd.pair.decimals[1]);
                                let delta = w(4) * pow10(18 - mind as u32);
                                if d1 + delta < d0 {
                                    let rel = diff_f64(&d0, &d1) / f64_of(&d0).max(1.0);
                                    let mag = leak_class(rel);
                                    let eq = if wd.pair.decimals[0] == wd.pair.decimals[1] { "equal-decimals" } else { "unequal-decimals" };
                                    let x = norm(obs.r[0], wd.pair.decimals[0]);
                                    let y = norm(obs.r[1], wd.pair.decimals[1]);
                                    acc.violation("C03", &format!("S4/{}/{mag}", imbalance_class(&x, &y)), viol_detail(wd, json!({"probe": "S5 deposit-then-withdraw", "decimals_class": eq, "d": [d[0].to_string(), d[1].to_string()], "D_before": d0.to_string(), "D_after": d1.to_string(), "obs": format!("{obs:?}"), "after": format!("{after:?}")})));
                                }
                            }
                        }
                    }
                }
            }
        }
        restore(&mut wd.app, &saved);
    }
    // (b) swap there and straight back
    {
        let user = 3;
        let usr = wd.users[user].clone();
        let dir = r.idx(2);
        let amt = if r.chance(2, 3) { r.near(obs.r[dir] / 10 + 1, 1u128 << 100) } else { r.amount(obs.r[dir].max(1)) };
        let b0 = wd.pair.assets[dir].balance(&wd.app, &usr);
        let a0 = wd.pair.assets[1 - dir].balance(&wd.app, &usr);
        if wd.swap(user, dir, amt, None, Some(dec(ONE18 / 2)), None).is_ok() {
            let got = wd.pair.assets[1 - dir].balance(&wd.app, &usr) - a0;
            if got > 0 && wd.swap(user, 1 - dir, got, None, Some(dec(ONE18 / 2)), None).is_ok() {
                acc.count("check.I4.swap-there-and-back");
                let b1 = wd.pair.assets[dir].balance(&wd.app, &usr);
                if b1 > b0 {
                    match wd.kind {
                        Kind::Cp => acc.violation("C02", "C02.R/e2e/there-and-back-profit", viol_detail(wd, json!({"dir": dir, "amount": amt.to_string(), "gain": (b1 - b0).to_string(), "obs": format!("{obs:?}")}))),
                        // not part of C03's statement (the swap clause is S1); recorded as an observation only
                        Kind::Stable => acc.count("observed.stable.there-and-back-gain"),
                    }
                }
                acc.slack("there-and-back.initial-minus-final", b0 as f64 - b1 as f64, || format!("dir={dir} amt={amt} obs={obs:?}"));
            }
        }
        restore(&mut wd.app, &saved);
    }
    wd.charged = saved_model.0;
    wd.sent = saved_model.1;
    wd.burned = saved_model.2;
    wd.ops.truncate(saved_model.3);
}

/// U1: a rejected top-level transaction leaves the whole chain state untouched.
fn check_unchanged(acc: &mut Acc, wd: &PairWorld, before: &Snap, what: &str, prop: &str) {
    acc.count("check.U1");
    let after = snap(&wd.app);
    if !same_state(before, &after) {
        acc.violation(prop, "U1/rejected-call-changed-state", viol_detail(wd, json!({"changed_keys": snap_diff(before, &after), "step": what})));
    }
}

pub fn gen_spread(r: &mut Rng) -> Option<u128> {
    match r.below(10) {
        0 => None,
        1 => Some(0),
        2 => Some(1),
        3 => Some(ONE18 / 100),
        4 => Some(ONE18 / 2 + r.below128(3)),
        5 => Some(ONE18),
        6 => Some(r.range128(0, ONE18 / 10)),
        _ => Some(ONE18 / 2),
    }
}

/// One random history on a fresh world.
pub fn run_history(acc: &mut Acc, r: &mut Rng, kind: Kind, variant: u64, steps: u64, prop: &str) {
    let mut wd = build_pair_world_opt(r, kind, variant, true);
    if wd.direct {
        acc.count("world.pair-instantiated-directly");
    }
    // scale of this history's reserves
    let (lo_bits, hi_bits) = match kind {
        Kind::Cp => (10u64, 118u64),
        Kind::Stable => (24u64, 96u64),
    };
    let bits = r.range(lo_bits, hi_bits) as u32;
    let base = 1u128 << bits;
    let mut class = vec![kind as u64, variant % 4, (bits / 12) as u64];
    // first deposit
    let d0 = match kind {
        Kind::Cp => [r.near(base, 1u128 << 120).max(1001), r.near(base, 1u128 << 120).max(1001)],
        Kind::Stable => {
            // at least a few whole tokens of each asset, roughly balanced in value
            let whole = r.range128(10, (base >> 10).max(11));
            let a = whole.saturating_mul(10u128.pow(wd.pair.decimals[0] as u32)).min(1u128 << 98);
            let skew = r.range128(1, 4);
            let b = (whole.saturating_mul(skew)).saturating_mul(10u128.pow(wd.pair.decimals[1] as u32)).min(1u128 << 98);
            [a.max(10u128.pow(wd.pair.decimals[0] as u32) * 3), b.max(10u128.pow(wd.pair.decimals[1] as u32) * 3)]
        }
    };
    monitored_provide(acc, &mut wd, 0, d0, None, None);
    let mut ops_in_block = 0;
    for step in 0..steps {
        let Ok(obs) = wd.observe() else {
            acc.violation(if kind == Kind::Cp { "C01" } else { "C03" }, "I1/pool-query-fails", viol_detail(&wd, json!({"step": step})));
            break;
        };
        let before = snap(&wd.app);
        let user = r.idx(4);
        let op = r.below(100);
        let ok;
        let what;
        if obs.s == 0 || op < 22 {
            // provide
            let d = if obs.s == 0 {
                d0
            } else {
                match r.below(6) {
                    0 | 1 => {
                        // balanced
                        let k = r.range128(1, 10_000);
                        [(obs.r[0] / k).max(1), (obs.r[1] / k).max(1)]
                    }
                    2 => [r.near(obs.r[0], 1u128 << 100), r.near(obs.r[1], 1u128 << 100)],
                    3 => [r.amount(1000), r.amount(1000)],
                    4 => [r.amount(1u128 << 100), r.amount(1u128 << 100)],
                    _ => {
                        let k = r.range128(1, 100);
                        [(obs.r[0] / k).max(1), r.near(obs.r[1] / k + 1, 1u128 << 100)]
                    }
                }
            };
            let receiver = if r.chance(1, 5) { Some(r.idx(4)) } else { None };
            let slip = match r.below(6) {
                0 => Some(0),
                1 => Some(ONE18 / 100),
                2 => Some(r.range128(0, ONE18)),
                3 => Some(ONE18 / 2),
                _ => None,
            };
            what = format!("provide {d:?}");
            wd.reverse_order = r.chance(1, 2);
            if wd.reverse_order {
                acc.count("provide.assets-listed-in-reverse-pool-order");
                wd.log("   (next deposit lists its assets in reverse pool order)".to_string());
            }
            ok = monitored_provide(acc, &mut wd, user, d, receiver, slip);
            wd.reverse_order = false;
            class.push(1);
        } else if op < 40 {
            let have = bal_cw20(&wd.app, &wd.pair.lp, &wd.users[user]);
            let lp = if have == 0 {
                r.amount(1000)
            } else {
                match r.below(5) {
                    0 => have,
                    1 => 1,
                    2 => have / 2 + 1,
                    _ => r.range128(1, have),
                }
            };
            what = format!("withdraw {lp}");
            ok = monitored_withdraw(acc, &mut wd, user, lp);
            class.push(2);
        } else if op < 78 {
            let dir = r.idx(2);
            let amount = match r.below(8) {
                0 => r.amount(1000),
                1 => r.near(obs.r[dir], 1u128 << 110),
                2 => r.amount(1u128 << 110),
                _ => {
                    let k = r.range128(2, 100_000);
                    (obs.r[dir] / k).max(1)
                }
            };
            let belief = if r.chance(1, 6) {
                // around the pool price (offer per ask)
                let p = if obs.r[1 - dir] > 0 { w(obs.r[dir]) * w(ONE18) / w(obs.r[1 - dir]) } else { w(ONE18) };
                let p = to_u128(&p).unwrap_or(ONE18).max(1);
                Some(r.near(p, u128::MAX / 2))
            } else {
                None
            };
            let pl = SwapPlan { user, dir, amount, belief, max_spread: gen_spread(r), to: if r.chance(1, 6) { Some(r.idx(4)) } else { None } };
            what = format!("swap dir{dir} {amount}");
            ok = monitored_swap(acc, &mut wd, &pl);
            class.push(3 + dir as u64);
        } else if op < 86 {
            what = "collect".to_string();
            monitored_collect(acc, &mut wd, user);
            ok = true;
            class.push(5);
        } else if op < 91 {
            let t = r.fee_triple();
            what = format!("set_fees {t:?}");
            wd.log(what.clone());
            let pre = obs.clone();
            match wd.set_fees(t) {
                Ok(_) => {
                    wd.fees = t;
                    acc.count("set_fees.ok");
                    if let Ok(post) = wd.observe() {
                        check_ledger(acc, &wd, &post, &what);
                        check_step(acc, &wd, &pre, &post, &what);
                    }
                    ok = true;
                }
                Err(_) => {
                    acc.count("set_fees.rejected");
                    ok = false;
                }
            }
            class.push(6);
        } else if op < 96 {
            // donation
            let i = r.idx(2);
            let amt = match r.below(3) {
                0 => r.amount(1000),
                1 => r.near(obs.r[i] / 100 + 1, 1u128 << 100),
                _ => r.amount(1u128 << 90),
            };
            what = format!("donate asset{i} {amt}");
            wd.log(what.clone());
            let (a, from, to) = (wd.pair.assets[i].clone(), wd.users[user].clone(), wd.pair.addr.clone());
            let pre = obs.clone();
            ok = transfer(&mut wd.app, &a, &from, &to, amt).is_ok();
            if ok {
                acc.count("donate.ok");
                if let Ok(post) = wd.observe() {
                    check_ledger(acc, &wd, &post, &what);
                    check_step(acc, &wd, &pre, &post, &what);
                }
            }
            class.push(7);
        } else if op < 97 && obs.s > 0 && wd.fees[0] > 0 {
            // steer a pending protocol fee onto the collectable-minimum boundary (999 / 1000 / 1001), then collect
            what = "steer pending fee to the collection threshold, then collect".to_string();
            ok = true;
            let i = r.idx(2);
            let target = *r.pick(&[1000u128, 1000, 1001, 999]);
            if obs.pend[i] < target {
                let need = target - obs.pend[i];
                let dir = 1 - i;
                // protocol_fee(offer) is monotone in the offer: bisect on the simulation
                let (mut lo, mut hi) = (1u128, obs.r[dir].saturating_mul(8).max(1_000_000));
                let mut found = None;
                for _ in 0..140 {
                    if lo > hi {
                        break;
                    }
                    let mid = lo + (hi - lo) / 2;
                    match wd.simulate(dir, mid) {
                        Ok(sm) => {
                            let pf = sm.protocol_fee_amount.u128();
                            if pf == need {
                                found = Some(mid);
                                break;
                            } else if pf < need {
                                lo = mid + 1;
                            } else {
                                hi = mid - 1;
                            }
                        }
                        Err(_) => hi = mid - 1,
                    }
                }
                if let Some(amount) = found {
                    let pl = SwapPlan { user, dir, amount, belief: None, max_spread: Some(ONE18 / 2), to: None };
                    if monitored_swap(acc, &mut wd, &pl) {
                        if let Ok(o2) = wd.observe() {
                            if o2.pend[i] == target {
                                acc.count(&format!("steer.pending=={target}.then-collect"));
                            }
                        }
                        monitored_collect(acc, &mut wd, r.idx(4));
                    }
                }
            }
            class.push(9);
        } else if op < 98 {
            // hostile use of the entry points: under-funded or unfunded calls and the rarely used direct
            // WithdrawLiquidity{} variant. Normally rejected; if one is accepted the usual invariants judge it.
            let (desc, res) = hostile_call(&mut wd, r, user, &obs);
            what = format!("hostile: {desc}");
            wd.log(what.clone());
            acc.count("hostile.attempted");
            match res {
                Ok(_) => {
                    acc.count("hostile.accepted");
                    ok = true;
                    if let Ok(post) = wd.observe() {
                        check_step(acc, &wd, &obs, &post, &what);
                        check_stable_lp(acc, &wd, &obs, &post, &what);
                        // an accepted hostile call must not have taken anything out of the pool
                        for i in 0..2 {
                            if post.bal[i] < obs.bal[i] {
                                let p = if kind == Kind::Cp { "C01" } else { "C03" };
                                acc.violation(p, "I6/under-funded-call-took-assets-out-of-the-pool", viol_detail(&wd, json!({"asset": i, "before": obs.bal[i].to_string(), "after": post.bal[i].to_string(), "step": what})));
                            }
                        }
                    }
                }
                Err(_) => {
                    acc.count("hostile.rejected");
                    ok = false;
                }
            }
            class.push(8);
        } else {
            what = "probe".to_string();
            probes(acc, &mut wd, r);
            ok = true;
        }
        if !ok {
            check_unchanged(acc, &wd, &before, &what, prop);
        }
        acc.evals += 1;
        // 0-3 operations per block
        ops_in_block += 1;
        if ops_in_block >= r.range(1, 3) {
            advance(&mut wd.app, 1, 6_000_000_000);
            ops_in_block = 0;
        }
        if step % 10 == 9 {
            probes(acc, &mut wd, r);
        }
        if class.len() > 6 {
            acc.class_only(&class);
            class.truncate(3);
        }
    }
    // final drain: everyone withdraws everything; the locked minimum must remain
    for user in 0..4 {
        let have = bal_cw20(&wd.app, &wd.pair.lp, &wd.users[user]);
        if have > 0 {
            monitored_withdraw(acc, &mut wd, user, have);
        }
    }
    if let Ok(post) = wd.observe() {
        if wd.first_deposit_done {
            acc.count("check.I5.after-drain");
            let min = if kind == Kind::Cp { MINLIQ } else { 2 * MINLIQ };
            if post.lp_locked < min || post.s < min {
                acc.violation(if kind == Kind::Cp { "C01" } else { "C03" }, "I5/locked-minimum-liquidity-left-the-pool", viol_detail(&wd, json!({"after_drain": format!("{post:?}")})));
            }
        }
    }
    for (k, v) in crate::trap::traps_take() {
        acc.add(&format!("trap-site: {k}"), v);
    }
    acc.sample(|| json!({"history_tail": wd.tail(12), "kind": format!("{kind:?}"), "assets": [wd.pair.assets[0].id(), wd.pair.assets[1].id()], "decimals": wd.pair.decimals}));
}

/// one under-funded / unfunded / odd-variant call by `user`
fn hostile_call(wd: &mut PairWorld, r: &mut Rng, user: usize, obs: &Obs) -> (String, Result<cw_multi_test::AppResponse, String>) {
    let usr = wd.users[user].clone();
    let pa = wd.pair.addr.clone();
    let natives: Vec<usize> = (0..2).filter(|i| wd.pair.assets[*i].is_native()).collect();
    let small = *r.pick(&[1u128, 999, 1000, 1001, 1_000_000]);
    match r.below(6) {
        0 => {
            // direct WithdrawLiquidity{} (token-factory LP variant) with one coin of some denom
            let dn = if !natives.is_empty() && r.chance(1, 2) { wd.pair.assets[natives[0]].id() } else { "uzzz".to_string() };
            (format!("WithdrawLiquidity{{}} with {small}{dn}"), exec(&mut wd.app, &usr, &pa, &pm::ExecuteMsg::WithdrawLiquidity {}, &[coin(small, dn)]))
        }
        1 if !natives.is_empty() => {
            // native swap declared but no coins attached
            let i = *r.pick(&natives);
            let amt = (obs.r[i] / 10).max(small);
            (format!("Swap asset{i} {amt} with no funds"), exec(&mut wd.app, &usr, &pa, &pm::ExecuteMsg::Swap { offer_asset: wd.pair.assets[i].asset(amt), belief_price: None, max_spread: Some(dec(ONE18 / 2)), to: None }, &[]))
        }
        2 if !natives.is_empty() => {
            // native swap declared, one unit less attached / another denom attached
            let i = *r.pick(&natives);
            let amt = (obs.r[i] / 10).max(small).max(2);
            let funds = if r.chance(1, 2) { vec![coin(amt - 1, wd.pair.assets[i].id())] } else { vec![coin(amt, "uzzz")] };
            (format!("Swap asset{i} {amt} with funds {funds:?}"), exec(&mut wd.app, &usr, &pa, &pm::ExecuteMsg::Swap { offer_asset: wd.pair.assets[i].asset(amt), belief_price: None, max_spread: Some(dec(ONE18 / 2)), to: None }, &funds))
        }
        3 if !natives.is_empty() => {
            // deposit declared, native side one unit short
            let d = [(obs.r[0] / 100).max(1000), (obs.r[1] / 100).max(1000)];
            let mut funds = vec![];
            for i in &natives {
                funds.push(coin(d[*i] - 1, wd.pair.assets[*i].id()));
            }
            funds.sort_by(|a, b| a.denom.cmp(&b.denom));
            (format!("ProvideLiquidity {d:?} with native funds one unit short"), exec(&mut wd.app, &usr, &pa, &pm::ExecuteMsg::ProvideLiquidity { assets: [wd.pair.assets[0].asset(d[0]), wd.pair.assets[1].asset(d[1])], slippage_tolerance: None, receiver: None }, &funds))
        }
        4 => {
            // LP token sent with a Swap hook (the LP token is not a pool asset)
            let have = bal_cw20(&wd.app, &wd.pair.lp, &usr);
            let amt = (have / 2).max(1);
            let lp = wd.pair.lp.clone();
            (format!("cw20 Send of {amt} LP with a Swap hook"), cw20_send(&mut wd.app, &lp, &usr, &pa, amt, &pm::Cw20HookMsg::Swap { belief_price: None, max_spread: None, to: None }))
        }
        _ => {
            // a pool asset (cw20) sent with a WithdrawLiquidity hook, or an unfunded deposit of zero
            match wd.pair.assets.iter().find_map(|a| if let AssetRef::Cw20(t) = a { Some(t.clone()) } else { None }) {
                Some(t) => (format!("cw20 Send of {small} pool asset with a WithdrawLiquidity hook"), cw20_send(&mut wd.app, &t, &usr, &pa, small, &pm::Cw20HookMsg::WithdrawLiquidity {})),
                None => ("WithdrawLiquidity{} with no funds".to_string(), exec(&mut wd.app, &usr, &pa, &pm::ExecuteMsg::WithdrawLiquidity {}, &[])),
            }
        }
    }
}

pub fn run_cp_histories(ctx: &Ctx, shard: u64, acc: &mut Acc, n_hist: u64, steps: u64, prop: &str) {
    run_histories(ctx, shard, acc, n_hist, steps, prop, Kind::Cp)
}

pub fn run_histories(ctx: &Ctx, shard: u64, acc: &mut Acc, n_hist: u64, steps: u64, prop: &str, kind: Kind) {
    let ph = hash_str(if kind == Kind::Cp { "pairs-cp" } else { "pairs-stable" });
    for h in 0..ctx.scaled(n_hist) {
        let hid = if kind == Kind::Cp { 1_000_000_000 } else { 1_100_000_000 } + h; // history ids of the e2e parts are offset so that replay can tell them apart
        if let Some(rp) = &ctx.replay {
            if rp.history != hid {
                continue;
            }
        }
        acc.history = hid;
        let mut r = Rng::from_parts(&[ctx.seed, ph, shard, h]);
        run_history(acc, &mut r, kind, shard * 7 + h, steps, prop);
    }
}
