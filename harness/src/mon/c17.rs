//! C17 — pause switches stop exactly the operation they name.
//!
//! Twin-run monitor. The world carries a toggle vector T (set by the operator through the factory,
//! optionally together with a fee update, for vaults also through partial updates). For every
//! operation x entry path the driver snapshots the chain, runs the operation under T, restores,
//! re-enables everything, runs the same operation again, restores, and judges:
//!   P1  the operation's own switch is off  => the call under T is rejected (and, being rejected, changed nothing)
//!   P2  the operation's own switch is on   => outcome (accept/reject) and the whole-world balance diff are identical
//!       to the run with everything enabled (the other switches do not affect it)
//!   P3  with T = all enabled after a disable / re-enable round trip the outcome equals the never-toggled one
//!   P4  fresh pools and vaults report all switches enabled
use crate::adversary::{Act, BorrowerExec, RepayMode, Step};
use crate::mon::c04::{build_trio_world, TrioWorld};
use crate::mon::inc::{build_inc, IncWorld};
use crate::mon::pools::{build_pair_world, Kind, PairWorld};
use crate::mon::vaults::{router_payload, seeded_world, RouterPay, VaultWorld};
use crate::rng::{hash_str, Rng};
use crate::rt::{run_shards, Acc, CheckMeta, Ctx};
use crate::wide::*;
use crate::world::*;
use cosmwasm_std::{coin, to_json_binary, Addr, Uint128};
use cw_multi_test::{App, AppResponse};
use serde_json::{json, Value};
use std::collections::BTreeMap;
use white_whale_std::pool_network::factory as fm;
use white_whale_std::pool_network::pair as pm;
use white_whale_std::pool_network::router as rm;
use white_whale_std::pool_network::trio as tm;
use white_whale_std::vault_network::vault as vm;
use white_whale_std::vault_network::vault_factory as vfm;

type Bal = BTreeMap<(String, String), u128>;

#[derive(Clone, Copy, PartialEq, Debug)]
struct T3 {
    deposit: bool,
    withdraw: bool,
    third: bool, // swaps (pools) / flash loans (vaults)
}
const ALL: T3 = T3 { deposit: true, withdraw: true, third: true };
impl T3 {
    fn from_bits(b: u64) -> T3 {
        T3 { deposit: b & 1 != 0, withdraw: b & 2 != 0, third: b & 4 != 0 }
    }
    fn bits(&self) -> u64 {
        self.deposit as u64 | (self.withdraw as u64) << 1 | (self.third as u64) << 2
    }
}

#[derive(Clone, Copy, PartialEq, Debug)]
enum OpKind {
    Deposit,
    Withdraw,
    Third,
}
impl OpKind {
    fn enabled(&self, t: &T3) -> bool {
        match self {
            OpKind::Deposit => t.deposit,
            OpKind::Withdraw => t.withdraw,
            OpKind::Third => t.third,
        }
    }
}

struct Out {
    ok: bool,
    err: String,
    diff: Vec<(String, String, String)>,
}

fn diff_of(pre: &Bal, post: &Bal) -> Vec<(String, String, String)> {
    let mut v = vec![];
    for (k, a) in post {
        let b = pre.get(k).copied().unwrap_or(0);
        if *a != b {
            v.push((k.0.clone(), k.1.clone(), if *a > b { format!("+{}", a - b) } else { format!("-{}", b - a) }));
        }
    }
    for (k, b) in pre {
        if !post.contains_key(k) && *b != 0 {
            v.push((k.0.clone(), k.1.clone(), format!("-{b}")));
        }
    }
    v
}

fn run_once(app: &mut App, tokens: &[Addr], op: &mut dyn FnMut(&mut App) -> Result<AppResponse, String>) -> Out {
    let pre = all_balances(app, tokens);
    let r = op(app);
    let post = all_balances(app, tokens);
    Out { ok: r.is_ok(), err: r.err().unwrap_or_default(), diff: diff_of(&pre, &post) }
}

fn short(e: &str) -> String {
    let cs: Vec<char> = e.chars().collect();
    cs[cs.len().saturating_sub(120)..].iter().collect()
}

/// the twin judgement; returns after having committed the operation under `t`
#[allow(clippy::too_many_arguments)]
fn twin(
    acc: &mut Acc,
    app: &mut App,
    tokens: &[Addr],
    target: &str,
    path: &str,
    kind: OpKind,
    t: T3,
    ever_toggled: bool,
    set: &mut dyn FnMut(&mut App, T3) -> Result<(), String>,
    op: &mut dyn FnMut(&mut App) -> Result<AppResponse, String>,
    hist: &[String],
    r: &mut Rng,
) {
    let s0 = snap(app);
    let det = |extra: Value| -> Value {
        let k = hist.len().saturating_sub(12);
        json!({"target": target, "path": path, "toggles(deposit,withdraw,third)": [t.deposit, t.withdraw, t.third], "last_ops": hist[k..].to_vec(), "extra": extra})
    };
    let under_t = run_once(app, tokens, op);
    let changed = !same_state(&s0, &snap(app));
    restore(app, &s0);
    acc.count(&format!("path.{target}.{path}"));
    if !kind.enabled(&t) {
        acc.count("check.P1.disabled-op-rejected");
        acc.count(&format!("check.P1.{target}.{path}"));
        if under_t.ok {
            acc.violation("C17", &format!("P1/disabled-operation-executed/{target}/{path}"), det(json!({"balance_diff": under_t.diff})));
        } else if changed {
            acc.violation("C17", &format!("P1/rejected-disabled-operation-changed-state/{target}/{path}"), det(json!({})));
        }
        if !under_t.ok && !(under_t.err.contains("isabled") || under_t.err.contains("disabled")) {
            acc.count("p1.rejected-with-other-error");
        }
    }
    // twin: everything enabled
    if t != ALL {
        if let Err(e) = set(app, ALL) {
            acc.count("twin.enable-all-failed");
            acc.violation("C17", &format!("P3/re-enabling-rejected/{target}"), det(json!({"err": short(&e)})));
            restore(app, &s0);
            return;
        }
    } else if r.chance(1, 2) {
        // disable / re-enable round trip before the twin run (P3)
        let tt = T3::from_bits(r.below(7));
        let a = set(app, tt);
        let b = set(app, ALL);
        if a.is_err() || b.is_err() {
            acc.violation("C17", &format!("P3/toggle-round-trip-rejected/{target}"), det(json!({"a": a.err(), "b": b.err()})));
            restore(app, &s0);
            return;
        }
        acc.count("check.P3.round-trip-before-twin");
    }
    let all_on = run_once(app, tokens, op);
    restore(app, &s0);
    if kind.enabled(&t) {
        acc.count("check.P2.enabled-op-unaffected");
        acc.count(&format!("check.P2.{target}.{path}"));
        if all_on.ok {
            acc.count(&format!("p2.ok.{target}.{path}"));
        }
        if under_t.ok != all_on.ok {
            let sig = if t == ALL { format!("P3/behaviour-after-re-enabling-differs/{target}/{path}") } else { format!("P2/enabled-operation-affected-by-other-switch/{target}/{path}") };
            acc.violation("C17", &sig, det(json!({"under_toggles": {"ok": under_t.ok, "err": short(&under_t.err)}, "all_enabled": {"ok": all_on.ok, "err": short(&all_on.err)}})));
        } else if under_t.ok && under_t.diff != all_on.diff {
            let sig = if t == ALL { format!("P3/effect-after-re-enabling-differs/{target}/{path}") } else { format!("P2/enabled-operation-effect-differs/{target}/{path}") };
            acc.violation("C17", &sig, det(json!({"under_toggles": under_t.diff, "all_enabled": all_on.diff})));
        }
    } else if ever_toggled && all_on.ok {
        acc.count("p1.same-op-succeeds-once-re-enabled");
    }
    acc.case(&[hash_str(target), hash_str(path), t.bits(), under_t.ok as u64, all_on.ok as u64]);
    // commit under t
    let _ = op(app);
}

// ------------------------------------------------------------------------------------------------
// pairs

fn pair_toggle_msg(t: T3) -> pm::FeatureToggle {
    pm::FeatureToggle { deposits_enabled: t.deposit, withdrawals_enabled: t.withdraw, swaps_enabled: t.third }
}

fn set_pair(app: &mut App, owner: &Addr, factory: &Addr, pair: &Addr, t: T3, with_fees: bool) -> Result<(), String> {
    let c: pm::ConfigResponse = query(app, pair, &pm::QueryMsg::Config {})?;
    let fees = if with_fees { Some(c.pool_fees.clone()) } else { None };
    // every other update also repeats the (unchanged) fee collector address in the same message
    let collector = if app.block_info().height % 2 == 1 { Some(c.fee_collector_addr.to_string()) } else { None };
    exec(app, owner, factory, &fm::ExecuteMsg::UpdatePairConfig { pair_addr: pair.to_string(), owner: None, fee_collector_addr: collector, pool_fees: fees, feature_toggle: Some(pair_toggle_msg(t)) }, &[]).map(|_| ())
}

fn pair_history(acc: &mut Acc, r: &mut Rng, kind: Kind, variant: u64, steps: u64) {
    let mut wd: PairWorld = build_pair_world(r, kind, variant);
    let (owner, factory, router, pair) = (wd.core.owner.clone(), wd.core.factory.clone(), wd.core.router.clone(), wd.pair.addr.clone());
    let target = if kind == Kind::Cp { "pair-cp" } else { "pair-stable" };
    // P4
    let c: pm::ConfigResponse = query(&wd.app, &pair, &pm::QueryMsg::Config {}).unwrap();
    acc.count("check.P4.fresh-all-enabled");
    if !(c.feature_toggle.deposits_enabled && c.feature_toggle.withdrawals_enabled && c.feature_toggle.swaps_enabled) {
        acc.violation("C17", &format!("P4/fresh-{target}-not-all-enabled"), json!({"toggle": format!("{:?}", c.feature_toggle)}));
    }
    let with_liquidity = r.chance(5, 6);
    if with_liquidity {
        let d = if kind == Kind::Stable {
            let whole = r.range128(1_000, 1_000_000_000);
            [whole * 10u128.pow(wd.pair.decimals[0] as u32), whole * 10u128.pow(wd.pair.decimals[1] as u32)]
        } else {
            let base = r.range128(1_000_000_000, 1_000_000_000_000_000);
            [base, r.range128(base / 3, base * 3)]
        };
        let _ = wd.provide(0, d, None, None);
        let _ = wd.provide(1, [d[0] / 3 + 1, d[1] / 3 + 1], None, None);
    }
    let mut t = ALL;
    let mut ever = false;
    let mut hist: Vec<String> = vec![format!("world {target} variant={variant} liquidity={with_liquidity}")];
    let tokens = wd.tokens.clone();
    for _ in 0..steps {
        if r.chance(1, 3) {
            let nt = T3::from_bits(r.below(8));
            let wf = r.chance(1, 2);
            hist.push(format!("set toggles {nt:?} with_fees={wf}"));
            match set_pair(&mut wd.app, &owner, &factory, &pair, nt, wf) {
                Ok(_) => {
                    t = nt;
                    ever = true;
                    acc.count("toggle.set");
                }
                Err(e) => acc.violation("C17", &format!("P3/toggle-update-rejected/{target}"), json!({"err": short(&e), "hist": hist})),
            }
        }
        let pool: pm::PoolResponse = query(&wd.app, &pair, &pm::QueryMsg::Pool {}).unwrap();
        let res = [pool.assets[0].amount.u128(), pool.assets[1].amount.u128()];
        let ui = r.idx(3);
        let usr = wd.users[ui].clone();
        let assets = wd.pair.assets.clone();
        let lp = wd.pair.lp.clone();
        let which = r.below(8);
        let (o2, f2, p2) = (owner.clone(), factory.clone(), pair.clone());
        let wf2 = r.chance(1, 2);
        let mut set = move |app: &mut App, tt: T3| set_pair(app, &o2, &f2, &p2, tt, wf2);
        match which {
            0 | 1 => {
                let d0 = if res[0] == 0 { r.range128(10_000_000, 1_000_000_000_000) } else { r.range128(res[0] / 1000 + 1, res[0] / 3 + 2) };
                let d1 = if res[0] == 0 { d0 } else { to_u128(&(w(d0) * w(res[1]) / w(res[0]))).unwrap_or(d0).max(1) };
                hist.push(format!("deposit user{ui} [{d0},{d1}]"));
                let mut funds = vec![];
                for (i, d) in [d0, d1].iter().enumerate() {
                    if let AssetRef::Native(dn) = &assets[i] {
                        funds.push(coin(*d, dn));
                    }
                }
                funds.sort_by(|a, b| a.denom.cmp(&b.denom));
                let msg = pm::ExecuteMsg::ProvideLiquidity { assets: [assets[0].asset(d0), assets[1].asset(d1)], slippage_tolerance: None, receiver: None };
                let (u2, p3) = (usr.clone(), pair.clone());
                let mut op = move |app: &mut App| exec(app, &u2, &p3, &msg, &funds);
                twin(acc, &mut wd.app, &tokens, target, "deposit.direct", OpKind::Deposit, t, ever, &mut set, &mut op, &hist, r);
            }
            2 | 3 => {
                let have = bal_cw20(&wd.app, &lp, &usr);
                let amt = if have == 0 { 1000 } else { r.range128(1, have / 2 + 1) };
                hist.push(format!("withdraw user{ui} lp={amt} (has {have})"));
                let (u2, p3, l2) = (usr.clone(), pair.clone(), lp.clone());
                let mut op = move |app: &mut App| cw20_send(app, &l2, &u2, &p3, amt, &pm::Cw20HookMsg::WithdrawLiquidity {});
                twin(acc, &mut wd.app, &tokens, target, "withdraw.cw20-hook", OpKind::Withdraw, t, ever, &mut set, &mut op, &hist, r);
            }
            _ => {
                let dir = r.idx(2);
                let amt = if res[dir] == 0 { r.range128(1000, 1_000_000) } else { r.range128(res[dir] / 100_000 + 1, res[dir] / 20 + 2) };
                let via_router = which >= 6;
                let spread = Some(dec(ONE18 / 2));
                let (u2, p3, rt) = (usr.clone(), pair.clone(), router.clone());
                let offer = assets[dir].clone();
                let ask = assets[1 - dir].clone();
                let path = match (&offer, via_router) {
                    (AssetRef::Native(_), false) => "swap.direct",
                    (AssetRef::Cw20(_), false) => "swap.cw20-hook",
                    (AssetRef::Native(_), true) => "swap.router",
                    (AssetRef::Cw20(_), true) => "swap.router-cw20-hook",
                };
                hist.push(format!("{path} user{ui} dir={dir} amount={amt}"));
                let ops = vec![rm::SwapOperation::TerraSwap { offer_asset_info: offer.info(), ask_asset_info: ask.info() }];
                let mut op = move |app: &mut App| match (&offer, via_router) {
                    (AssetRef::Native(dn), false) => exec(app, &u2, &p3, &pm::ExecuteMsg::Swap { offer_asset: offer.asset(amt), belief_price: None, max_spread: spread, to: None }, &[coin(amt, dn)]),
                    (AssetRef::Cw20(tk), false) => cw20_send(app, tk, &u2, &p3, amt, &pm::Cw20HookMsg::Swap { belief_price: None, max_spread: spread, to: None }),
                    (AssetRef::Native(dn), true) => exec(app, &u2, &rt, &rm::ExecuteMsg::ExecuteSwapOperations { operations: ops.clone(), minimum_receive: None, to: None, max_spread: spread }, &[coin(amt, dn)]),
                    (AssetRef::Cw20(tk), true) => cw20_send(app, tk, &u2, &rt, amt, &rm::Cw20HookMsg::ExecuteSwapOperations { operations: ops.clone(), minimum_receive: None, to: None, max_spread: spread }),
                };
                twin(acc, &mut wd.app, &tokens, target, path, OpKind::Third, t, ever, &mut set, &mut op, &hist, r);
            }
        }
        if r.chance(1, 4) {
            advance(&mut wd.app, 1, 6_000_000_000);
        }
    }
    let k = hist.len().saturating_sub(8);
    acc.sample(|| json!({"world": target, "tail": hist[k..].to_vec()}));
}

// ------------------------------------------------------------------------------------------------
// frontend helper path (pair with an incentive contract)

fn helper_history(acc: &mut Acc, r: &mut Rng, variant: u64, steps: u64) {
    // variants with a real pair: (variant / 4) % 2 == 1
    let mut wd: IncWorld = build_inc(r, (variant % 4) + 4);
    let Some(ph) = wd.pair.as_ref() else { return };
    let (pair, a0, a1) = (ph.addr.clone(), ph.assets[0].clone(), ph.assets[1].clone());
    let (owner, factory, helper) = (wd.core.owner.clone(), wd.core.factory.clone(), wd.helper.clone());
    let tokens = wd.tokens.clone();
    let mut t = ALL;
    let mut ever = false;
    let mut hist: Vec<String> = vec!["world pair+incentive+helper".into()];
    for _ in 0..steps {
        if r.chance(1, 2) {
            let nt = T3::from_bits(r.below(8));
            let wf = r.chance(1, 2);
            hist.push(format!("set toggles {nt:?} with_fees={wf}"));
            if set_pair(&mut wd.app, &owner, &factory, &pair, nt, wf).is_ok() {
                t = nt;
                ever = true;
                acc.count("toggle.set");
            }
        }
        let ui = r.idx(3);
        let usr = wd.users[ui].clone();
        let pool: pm::PoolResponse = query(&wd.app, &pair, &pm::QueryMsg::Pool {}).unwrap();
        let (r0, r1) = (pool.assets[0].amount.u128(), pool.assets[1].amount.u128());
        let d0 = r.range128(r0 / 10_000 + 1, r0 / 10 + 2);
        let d1 = to_u128(&(w(d0) * w(r1) / w(r0.max(1)))).unwrap_or(d0).max(1);
        let dur = *r.pick(&[86_400u64, 86_400 * 30, 31_556_926]);
        hist.push(format!("helper deposit user{ui} [{d0},{d1}] dur={dur}"));
        // exact allowance to the helper (set outside the judged transaction)
        if let AssetRef::Cw20(tk) = &a1 {
            let cur: cw20::AllowanceResponse = query(&wd.app, tk, &cw20::Cw20QueryMsg::Allowance { owner: usr.to_string(), spender: helper.to_string() }).unwrap();
            if !cur.allowance.is_zero() {
                let _ = exec(&mut wd.app, &usr, tk, &cw20::Cw20ExecuteMsg::DecreaseAllowance { spender: helper.to_string(), amount: cur.allowance, expires: None }, &[]);
            }
            cw20_allow(&mut wd.app, tk, &usr, &helper, d1);
        }
        let msg = white_whale_std::pool_network::frontend_helper::ExecuteMsg::Deposit { pair_address: pair.to_string(), assets: [a0.asset(d0), a1.asset(d1)], slippage_tolerance: None, unbonding_duration: dur };
        let funds = a0.funds(d0);
        let (u2, h2) = (usr.clone(), helper.clone());
        let mut op = move |app: &mut App| exec(app, &u2, &h2, &msg, &funds);
        let (o2, f2, p2) = (owner.clone(), factory.clone(), pair.clone());
        let wf2 = r.chance(1, 2);
        let mut set = move |app: &mut App, tt: T3| set_pair(app, &o2, &f2, &p2, tt, wf2);
        twin(acc, &mut wd.app, &tokens, "pair-cp", "deposit.frontend-helper", OpKind::Deposit, t, ever, &mut set, &mut op, &hist, r);
    }
    let k = hist.len().saturating_sub(8);
    acc.sample(|| json!({"world": "pair-cp + incentive + frontend helper", "tail": hist[k..].to_vec()}));
}

// ------------------------------------------------------------------------------------------------
// trio

/// `extra` bit 0: also send a valid amp ramp, bit 1: also send the (unchanged) fee collector address
fn set_trio(app: &mut App, owner: &Addr, factory: &Addr, trio: &Addr, t: T3, with_fees: bool, extra: u64) -> Result<(), String> {
    let c: tm::ConfigResponse = query(app, trio, &tm::QueryMsg::Config {})?;
    let fees = if with_fees { Some(c.pool_fees.clone()) } else { None };
    let height = app.block_info().height;
    let ramp = if extra & 1 != 0 {
        let cur = crate::mon::c04::amp_at(&crate::mon::c04::AmpCfg { a0: c.initial_amp, a1: c.future_amp, t0: c.initial_amp_block, t1: c.future_amp_block }, height);
        // half of the ramps go to exactly the current amp (a no-op ramp), the others halve / double it
        let target = if height % 4 < 2 { cur } else if cur >= 2 && height % 2 == 0 { cur / 2 } else { (cur * 2).min(1_000_000) };
        Some(tm::RampAmp { future_a: target.max(1), future_block: height + 10_000 + (height % 977) })
    } else {
        None
    };
    let collector = if extra & 2 != 0 { Some(c.fee_collector_addr.to_string()) } else { None };
    exec(
        app,
        owner,
        factory,
        &fm::ExecuteMsg::UpdateTrioConfig { trio_addr: trio.to_string(), owner: None, fee_collector_addr: collector, pool_fees: fees, feature_toggle: Some(tm::FeatureToggle { deposits_enabled: t.deposit, withdrawals_enabled: t.withdraw, swaps_enabled: t.third }), amp_factor: ramp },
        &[],
    )
    .map(|_| ())
}

fn trio_history(acc: &mut Acc, r: &mut Rng, variant: u64, steps: u64) {
    let mut wd: TrioWorld = build_trio_world(r, variant);
    let (owner, factory, trio) = (wd.core.owner.clone(), wd.core.factory.clone(), wd.trio.addr.clone());
    let c: tm::ConfigResponse = query(&wd.app, &trio, &tm::QueryMsg::Config {}).unwrap();
    acc.count("check.P4.fresh-all-enabled");
    if !(c.feature_toggle.deposits_enabled && c.feature_toggle.withdrawals_enabled && c.feature_toggle.swaps_enabled) {
        acc.violation("C17", "P4/fresh-trio-not-all-enabled", json!({"toggle": format!("{:?}", c.feature_toggle)}));
    }
    let with_liquidity = r.chance(5, 6);
    if with_liquidity {
        let base = r.range128(1_000_000_000, 1_000_000_000_000_000);
        let _ = wd.provide(0, [base, base, base], None, None);
        let _ = wd.provide(1, [base / 3, base / 3, base / 3], None, None);
    }
    let tokens = wd.tokens.clone();
    let mut t = ALL;
    let mut ever = false;
    let mut hist: Vec<String> = vec![format!("world trio variant={variant} liquidity={with_liquidity}")];
    for _ in 0..steps {
        if r.chance(1, 3) {
            let nt = T3::from_bits(r.below(8));
            let wf = r.chance(1, 2);
            hist.push(format!("set toggles {nt:?} with_fees={wf}"));
            let extra = if r.chance(1, 2) { r.below(4) } else { 0 };
            hist.push(format!("   (same message also carries: ramp={} fee_collector={})", extra & 1 != 0, extra & 2 != 0));
            match set_trio(&mut wd.app, &owner, &factory, &trio, nt, wf, extra) {
                Ok(_) => {
                    t = nt;
                    ever = true;
                    acc.count("toggle.set");
                    if extra & 1 != 0 {
                        acc.count("toggle.set.trio.with-amp-ramp");
                    }
                }
                Err(e) => acc.violation("C17", "P3/toggle-update-rejected/trio", json!({"err": short(&e), "hist": hist})),
            }
        }
        let pool: tm::PoolResponse = query(&wd.app, &trio, &tm::QueryMsg::Pool {}).unwrap();
        let res: Vec<u128> = pool.assets.iter().map(|a| a.amount.u128()).collect();
        let ui = r.idx(3);
        let usr = wd.users[ui].clone();
        let assets = wd.trio.assets.clone();
        let lp = wd.trio.lp.clone();
        let (o2, f2, p2) = (owner.clone(), factory.clone(), trio.clone());
        let wf2 = r.chance(1, 2);
        let mut set = move |app: &mut App, tt: T3| set_trio(app, &o2, &f2, &p2, tt, wf2, 0);
        match r.below(6) {
            0 | 1 => {
                let d = if res[0] == 0 { r.range128(10_000_000, 1_000_000_000_000) } else { r.range128(res[0] / 1000 + 1, res[0] / 3 + 2) };
                hist.push(format!("deposit user{ui} [{d};3]"));
                let mut funds = vec![];
                for a in assets.iter() {
                    if let AssetRef::Native(dn) = a {
                        funds.push(coin(d, dn));
                    }
                }
                funds.sort_by(|a, b| a.denom.cmp(&b.denom));
                let msg = tm::ExecuteMsg::ProvideLiquidity { assets: [assets[0].asset(d), assets[1].asset(d), assets[2].asset(d)], slippage_tolerance: None, receiver: None };
                let (u2, p3) = (usr.clone(), trio.clone());
                let mut op = move |app: &mut App| exec(app, &u2, &p3, &msg, &funds);
                twin(acc, &mut wd.app, &tokens, "trio", "deposit.direct", OpKind::Deposit, t, ever, &mut set, &mut op, &hist, r);
            }
            2 | 3 => {
                let have = bal_cw20(&wd.app, &lp, &usr);
                let amt = if have == 0 { 1000 } else { r.range128(1, have / 2 + 1) };
                hist.push(format!("withdraw user{ui} lp={amt} (has {have})"));
                let (u2, p3, l2) = (usr.clone(), trio.clone(), lp.clone());
                let mut op = move |app: &mut App| cw20_send(app, &l2, &u2, &p3, amt, &tm::Cw20HookMsg::WithdrawLiquidity {});
                twin(acc, &mut wd.app, &tokens, "trio", "withdraw.cw20-hook", OpKind::Withdraw, t, ever, &mut set, &mut op, &hist, r);
            }
            _ => {
                let from = r.idx(3);
                let to = (from + 1 + r.idx(2)) % 3;
                let amt = if res[from] == 0 { r.range128(1000, 1_000_000) } else { r.range128(res[from] / 100_000 + 1, res[from] / 20 + 2) };
                let offer = assets[from].clone();
                let ask = assets[to].info();
                let path = if offer.is_native() { "swap.direct" } else { "swap.cw20-hook" };
                hist.push(format!("{path} user{ui} {from}->{to} amount={amt}"));
                let spread = Some(dec(ONE18 / 2));
                let (u2, p3) = (usr.clone(), trio.clone());
                let mut op = move |app: &mut App| match &offer {
                    AssetRef::Native(dn) => exec(app, &u2, &p3, &tm::ExecuteMsg::Swap { offer_asset: offer.asset(amt), ask_asset: ask.clone(), belief_price: None, max_spread: spread, to: None }, &[coin(amt, dn)]),
                    AssetRef::Cw20(tk) => cw20_send(app, tk, &u2, &p3, amt, &tm::Cw20HookMsg::Swap { ask_asset: ask.clone(), belief_price: None, max_spread: spread, to: None }),
                };
                twin(acc, &mut wd.app, &tokens, "trio", path, OpKind::Third, t, ever, &mut set, &mut op, &hist, r);
            }
        }
        if r.chance(1, 4) {
            advance(&mut wd.app, 1, 6_000_000_000);
        }
    }
    let k = hist.len().saturating_sub(8);
    acc.sample(|| json!({"world": "trio", "tail": hist[k..].to_vec()}));
}

// ------------------------------------------------------------------------------------------------
// vaults

/// mode 0: one message with all three flags; 1: only the flags that change; 2: one message per flag in random order;
/// `with_fees` adds the current fees to (the first of) the message(s)
fn set_vault(app: &mut App, owner: &Addr, vfactory: &Addr, vault: &Addr, t: T3, mode: u64, with_fees: bool, perm: u64) -> Result<(), String> {
    let c0: vm::Config = query(app, vault, &vm::QueryMsg::Config {})?;
    let cur = T3 { deposit: c0.deposit_enabled, withdraw: c0.withdraw_enabled, third: c0.flash_loan_enabled };
    let fees = if with_fees {
        let c: vm::Config = query(app, vault, &vm::QueryMsg::Config {})?;
        Some(c.fees)
    } else {
        None
    };
    let collector = if perm % 2 == 1 { Some(c0.fee_collector_addr.to_string()) } else { None };
    let send = |app: &mut App, d: Option<bool>, wdr: Option<bool>, f: Option<bool>, fees: Option<white_whale_std::fee::VaultFee>| -> Result<(), String> {
        exec(app, owner, vfactory, &vfm::ExecuteMsg::UpdateVaultConfig { vault_addr: vault.to_string(), params: vm::UpdateConfigParams { flash_loan_enabled: f, deposit_enabled: d, withdraw_enabled: wdr, new_owner: None, new_vault_fees: fees, new_fee_collector_addr: collector.clone() } }, &[]).map(|_| ())
    };
    match mode {
        0 => send(app, Some(t.deposit), Some(t.withdraw), Some(t.third), fees),
        1 => {
            let d = if cur.deposit != t.deposit { Some(t.deposit) } else { None };
            let wq = if cur.withdraw != t.withdraw { Some(t.withdraw) } else { None };
            let f = if cur.third != t.third { Some(t.third) } else { None };
            send(app, d, wq, f, fees)
        }
        _ => {
            let orders = [[0, 1, 2], [0, 2, 1], [1, 0, 2], [1, 2, 0], [2, 0, 1], [2, 1, 0]];
            let mut fees = fees;
            for k in orders[(perm % 6) as usize] {
                match k {
                    0 => send(app, Some(t.deposit), None, None, fees.take())?,
                    1 => send(app, None, Some(t.withdraw), None, fees.take())?,
                    _ => send(app, None, None, Some(t.third), fees.take())?,
                }
            }
            Ok(())
        }
    }
}

fn vault_history(acc: &mut Acc, r: &mut Rng, steps: u64) {
    let fees = [[r.range128(0, ONE18 / 100), r.range128(0, ONE18 / 100), r.range128(0, ONE18 / 100)], [r.range128(0, ONE18 / 100), r.range128(0, ONE18 / 100), 0]];
    let liq = [r.range128(1_000_000, 1_000_000_000_000_000), r.range128(1_000_000, 1_000_000_000_000_000)];
    let with_liquidity = r.chance(5, 6);
    let mut wd: VaultWorld = if with_liquidity { seeded_world(fees, liq) } else { crate::mon::vaults::build_vault_world(fees) };
    let mut tokens = wd.tokens.clone();
    let (owner, vfactory) = (wd.owner.clone(), wd.vfactory.clone());
    for v in 0..2 {
        let c: vm::Config = query(&wd.app, &wd.vaults[v].addr, &vm::QueryMsg::Config {}).unwrap();
        acc.count("check.P4.fresh-all-enabled");
        if !(c.deposit_enabled && c.withdraw_enabled && c.flash_loan_enabled) {
            acc.violation("C17", "P4/fresh-vault-not-all-enabled", json!({"config": format!("{c:?}")}));
        }
    }
    let mut t = vec![ALL, ALL];
    let mut ever = vec![false, false];
    // registered[v]: the vault factory's registry points at vault v for its asset
    let mut registered = vec![true, true];
    let mut hist: Vec<String> = vec![format!("world vaults liquidity={with_liquidity}")];
    for _ in 0..steps {
        // now and then the operator retires a vault and creates a new one for the same asset: the old vault stays
        // factory-owned (its switches are still set through the factory by address) but is no longer registered
        if wd.vaults.len() < 4 && r.chance(1, 25) {
            let old = r.idx(2);
            let a = wd.vaults[old].asset.clone();
            let cur_reg = (0..wd.vaults.len()).find(|i| registered[*i] && wd.vaults[*i].asset == a).unwrap();
            hist.push(format!("remove + re-create the vault for {} (vault #{cur_reg} retired)", a.id()));
            let rm = exec(&mut wd.app, &owner, &vfactory, &vfm::ExecuteMsg::RemoveVault { asset_info: a.info() }, &[]);
            if rm.is_ok() {
                registered[cur_reg] = false;
                match create_vault(&mut wd.app, &owner, &vfactory, a.clone(), vault_fee(fees[old])) {
                    Ok(h) => {
                        tokens.push(h.lp.clone());
                        wd.tokens.push(h.lp.clone());
                        wd.vaults.push(h);
                        wd.fees.push(fees[old]);
                        wd.charged.push(0);
                        wd.sent.push(0);
                        wd.burned.push(0);
                        wd.first_done.push(false);
                        t.push(ALL);
                        ever.push(false);
                        registered.push(true);
                        acc.count("vault.retired-and-recreated");
                        let c: vm::Config = query(&wd.app, &wd.vaults.last().unwrap().addr, &vm::QueryMsg::Config {}).unwrap();
                        acc.count("check.P4.fresh-all-enabled");
                        if !(c.deposit_enabled && c.withdraw_enabled && c.flash_loan_enabled) {
                            acc.violation("C17", "P4/fresh-vault-not-all-enabled", json!({"config": format!("{c:?}")}));
                        }
                    }
                    Err(e) => hist.push(format!("   re-creation failed: {}", short(&e))),
                }
            }
        }
        let v = r.idx(wd.vaults.len());
        let target = if wd.vaults[v].asset.is_native() { "vault-native" } else { "vault-cw20" };
        let va = wd.vaults[v].addr.clone();
        if r.chance(1, 3) {
            let nt = T3::from_bits(r.below(8));
            let (mode, wf, perm) = (r.below(3), r.chance(1, 3), r.below(6));
            hist.push(format!("set {target} toggles {nt:?} mode={mode} with_fees={wf} perm={perm}"));
            match set_vault(&mut wd.app, &owner, &vfactory, &va, nt, mode, wf, perm) {
                Ok(_) => {
                    t[v] = nt;
                    ever[v] = true;
                    acc.count("toggle.set");
                    acc.count(&format!("toggle.set.vault.mode{mode}"));
                }
                Err(e) => acc.violation("C17", &format!("P3/toggle-update-rejected/{target}"), json!({"err": short(&e), "hist": hist})),
            }
        }
        let ui = r.idx(3);
        let usr = wd.users[ui].clone();
        let asset = wd.vaults[v].asset.clone();
        let lp = wd.vaults[v].lp.clone();
        let cur = t[v];
        let (o2, f2, p2) = (owner.clone(), vfactory.clone(), va.clone());
        let (mode2, wf2, perm2) = (r.below(3), r.chance(1, 3), r.below(6));
        let mut set = move |app: &mut App, tt: T3| set_vault(app, &o2, &f2, &p2, tt, mode2, wf2, perm2);
        let bal = asset.balance(&wd.app, &va);
        match r.below(9) {
            0 | 1 => {
                let amt = r.range128(1001, 1_000_000_000_000);
                hist.push(format!("deposit {target} user{ui} {amt}"));
                wd.prepare_allowance(&usr, v, amt);
                let (u2, funds) = (usr.clone(), asset.funds(amt));
                let va2 = va.clone();
                let mut op = move |app: &mut App| exec(app, &u2, &va2, &vm::ExecuteMsg::Deposit { amount: Uint128::new(amt) }, &funds);
                twin(acc, &mut wd.app, &tokens, target, "deposit.direct", OpKind::Deposit, cur, ever[v], &mut set, &mut op, &hist, r);
            }
            2 => {
                // deposit made by a contract (the borrower runs a one-step script at top level)
                let amt = r.range128(1001, 1_000_000_000);
                hist.push(format!("deposit {target} by contract {amt}"));
                let script = vec![Step { act: Act::Deposit { vault: va.to_string(), asset: asset.info(), amount: Uint128::new(amt) }, swallow: false }];
                let (u2, b2) = (usr.clone(), wd.borrower.clone());
                let mut op = move |app: &mut App| exec(app, &u2, &b2, &BorrowerExec::Run { script: script.clone() }, &[]);
                twin(acc, &mut wd.app, &tokens, target, "deposit.by-contract", OpKind::Deposit, cur, ever[v], &mut set, &mut op, &hist, r);
            }
            3 | 4 => {
                let have = bal_cw20(&wd.app, &lp, &usr);
                let amt = if have == 0 { 1000 } else { r.range128(1, have / 2 + 1) };
                hist.push(format!("withdraw {target} user{ui} lp={amt} (has {have})"));
                let (u2, l2, va2) = (usr.clone(), lp.clone(), va.clone());
                let mut op = move |app: &mut App| cw20_send(app, &l2, &u2, &va2, amt, &vm::Cw20HookMsg::Withdraw {});
                twin(acc, &mut wd.app, &tokens, target, "withdraw.cw20-hook", OpKind::Withdraw, cur, ever[v], &mut set, &mut op, &hist, r);
            }
            5 => {
                let have = bal_cw20(&wd.app, &lp, &wd.borrower);
                let amt = if have == 0 { 1000 } else { r.range128(1, have / 4 + 1) };
                hist.push(format!("withdraw {target} by contract lp={amt}"));
                let script = vec![Step { act: Act::Withdraw { vault: va.to_string(), lp_token: lp.to_string(), lp: Uint128::new(amt) }, swallow: false }];
                let (u2, b2) = (usr.clone(), wd.borrower.clone());
                let mut op = move |app: &mut App| exec(app, &u2, &b2, &BorrowerExec::Run { script: script.clone() }, &[]);
                twin(acc, &mut wd.app, &tokens, target, "withdraw.by-contract", OpKind::Withdraw, cur, ever[v], &mut set, &mut op, &hist, r);
            }
            6 | 7 => {
                let amt = if bal == 0 { 1000 } else { r.range128(1, bal) };
                hist.push(format!("flash loan {target} direct amount={amt}"));
                let script = vec![Step { act: Act::Repay { vault: va.to_string(), asset: asset.info(), loan: Uint128::new(amt), mode: RepayMode::Exact }, swallow: false }];
                let (u2, b2, va2) = (usr.clone(), wd.borrower.clone(), va.clone());
                let mut op = move |app: &mut App| exec(app, &u2, &b2, &BorrowerExec::Start { vault: va2.to_string(), amount: Uint128::new(amt), script: script.clone() }, &[]);
                twin(acc, &mut wd.app, &tokens, target, "flash-loan.direct", OpKind::Third, cur, ever[v], &mut set, &mut op, &hist, r);
            }
            _ if !registered[v] => {
                // the vault router resolves the vault through the registry: a retired vault is not reachable that way
                acc.count("vault.retired.router-path-skipped");
            }
            _ => {
                let amt = if bal == 0 { 1000 } else { r.range128(1, bal) };
                hist.push(format!("flash loan {target} via vault router amount={amt}"));
                let payload = router_payload(&wd, v, amt, &RouterPay::ExactFees, 0, &usr);
                let (u2, vr) = (usr.clone(), wd.vrouter.clone());
                let a = asset.asset(amt);
                let mut op = move |app: &mut App| exec(app, &u2, &vr, &white_whale_std::vault_network::vault_router::ExecuteMsg::FlashLoan { assets: vec![a.clone()], msgs: payload.clone() }, &[]);
                twin(acc, &mut wd.app, &tokens, target, "flash-loan.vault-router", OpKind::Third, cur, ever[v], &mut set, &mut op, &hist, r);
            }
        }
        if r.chance(1, 4) {
            advance(&mut wd.app, 1, 6_000_000_000);
        }
    }
    let _ = to_json_binary(&0u8);
    let k = hist.len().saturating_sub(8);
    acc.sample(|| json!({"world": "vaults", "tail": hist[k..].to_vec()}));
}

pub fn run(ctx: &Ctx) -> (CheckMeta, Acc) {
    let n = ctx.tier.pick(60, 3000);
    let steps = ctx.tier.pick(40, 80);
    let ph = hash_str("C17");
    let total = run_shards(ctx, 16, |sh, acc| {
        for h in 0..ctx.scaled(n) {
            if let Some(rp) = &ctx.replay {
                if rp.history != h {
                    continue;
                }
            }
            acc.history = h;
            let variant = sh + 16 * h;
            let mut r = Rng::from_parts(&[ctx.seed, ph, sh, h, 1]);
            pair_history(acc, &mut r, Kind::Cp, variant, steps);
            let mut r = Rng::from_parts(&[ctx.seed, ph, sh, h, 2]);
            pair_history(acc, &mut r, Kind::Stable, variant, steps);
            let mut r = Rng::from_parts(&[ctx.seed, ph, sh, h, 3]);
            trio_history(acc, &mut r, variant, steps);
            let mut r = Rng::from_parts(&[ctx.seed, ph, sh, h, 4]);
            vault_history(acc, &mut r, steps);
            let mut r = Rng::from_parts(&[ctx.seed, ph, sh, h, 5]);
            helper_history(acc, &mut r, variant, steps / 4);
            for (k, v) in crate::trap::traps_take() {
                acc.add(&format!("trap-site: {k}"), v);
            }
        }
    });
    let mut obligations: Vec<String> = vec!["check.P1.disabled-op-rejected".into(), "check.P2.enabled-op-unaffected".into(), "check.P3.round-trip-before-twin".into(), "check.P4.fresh-all-enabled".into(), "toggle.set.vault.mode0".into(), "toggle.set.vault.mode1".into(), "toggle.set.vault.mode2".into(), "toggle.set.trio.with-amp-ramp".into(), "vault.retired-and-recreated".into()];
    for (tg, paths) in [
        ("pair-cp", vec!["deposit.direct", "deposit.frontend-helper", "withdraw.cw20-hook", "swap.direct", "swap.cw20-hook", "swap.router", "swap.router-cw20-hook"]),
        ("pair-stable", vec!["deposit.direct", "withdraw.cw20-hook", "swap.direct", "swap.cw20-hook", "swap.router", "swap.router-cw20-hook"]),
        ("trio", vec!["deposit.direct", "withdraw.cw20-hook", "swap.direct", "swap.cw20-hook"]),
        ("vault-native", vec!["deposit.direct", "deposit.by-contract", "withdraw.cw20-hook", "withdraw.by-contract", "flash-loan.direct", "flash-loan.vault-router"]),
        ("vault-cw20", vec!["deposit.direct", "deposit.by-contract", "withdraw.cw20-hook", "withdraw.by-contract", "flash-loan.direct", "flash-loan.vault-router"]),
    ] {
        for p in paths {
            obligations.push(format!("check.P1.{tg}.{p}"));
            obligations.push(format!("p2.ok.{tg}.{p}"));
        }
    }
    let meta = CheckMeta {
        level: "exploration",
        rule: "twin-run monitor over real constant-product pairs, stableswap pairs, trios (all asset-kind variants), native and cw20 vaults, with and without liquidity. The operator sets one of the 2^3 switch combinations through the factory (pools: optionally together with a fee update, the fee collector address and - trios - a valid amp ramp; vaults: all flags at once, only the changed flags, or one message per flag in random order, optionally with fees). For every operation x entry path (deposit: direct, frontend helper, by a contract; withdraw: cw20 send hook, by a contract; swap: direct, cw20 send hook, router with native offer, router through cw20 send; flash loan: direct, vault router) the chain is snapshotted, the call is run under the current switches, the snapshot restored, everything re-enabled (half of the time after an extra disable / re-enable round trip when nothing was disabled) and the same call run again. P1: own switch off => rejected and state byte-identical. P2: own switch on => same accept/reject outcome and identical whole-world balance diff as with everything enabled. P3: after re-enabling the outcome equals the untouched one; re-enabling is never rejected. P4: fresh pools / vaults report all switches on. distinct = (target, path, switches, outcome under switches, outcome all-enabled).".to_string(),
        assumptions: vec!["direct WithdrawLiquidity{} / Withdraw{} messages (token-factory LP) cannot be reached in this build: LP tokens are cw20".into()],
        obligations,
    };
    (meta, total)
}
