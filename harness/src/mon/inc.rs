//! Incentive world (real incentive factory + incentive contract + distributor as epoch clock +
//! frontend helper + a real pair for the cw20-LP variant) and the shared history driver for
//! C11 (custody of staked LP), C12 (flows funded / returned) and C13 (weights and claims).

use crate::mon::c08::catch_up_epochs;
use crate::rng::{hash_str, Rng};
use crate::rt::{Acc, Ctx};
use crate::wide::*;
use crate::world::*;
use cosmwasm_std::{coin, Addr, Coin, Uint128};
use cw_multi_test::{App, AppResponse};
use serde_json::{json, Value};
use std::collections::BTreeMap;
use white_whale_std::pool_network::asset::{Asset, PairType};
use white_whale_std::pool_network::incentive as im;
use white_whale_std::pool_network::incentive_factory as ifm;
use white_whale_std::pool_network::pair as pm;

pub const FUNDS: u128 = 1u128 << 110;
pub const MIN_DUR: u64 = 86_400;
pub const MAX_DUR: u64 = 31_556_926;

pub struct IncWorld {
    pub app: App,
    pub core: Core,
    pub users: Vec<Addr>,
    pub ifactory: Addr,
    pub incentive: Addr,
    pub helper: Addr,
    pub lp: AssetRef,
    pub pair: Option<PairHandle>,
    pub fee_asset: AssetRef,
    pub fee_amount: u128,
    pub rewards: Vec<AssetRef>,
    pub tokens: Vec<Addr>,
    pub ops: Vec<String>,
    /// model: per flow id -> creator index
    pub creators: BTreeMap<u64, usize>,
    /// model: last epoch in which a user's claim succeeded
    pub claimed_in_epoch: BTreeMap<usize, u64>,
    pub close_before_snapshot_epoch: Option<u64>,
    /// epoch at which the history started (no account can have older unclaimed epochs)
    pub epoch0: u64,
}

impl IncWorld {
    pub fn log(&mut self, s: String) {
        if self.ops.len() >= 300 {
            self.ops.remove(0);
        }
        self.ops.push(s);
    }
    pub fn tail(&self, n: usize) -> Vec<String> {
        let k = self.ops.len().saturating_sub(n);
        self.ops[k..].to_vec()
    }
    pub fn epoch(&self) -> u64 {
        let r: white_whale_std::fee_distributor::EpochResponse = query(&self.app, &self.core.distributor, &white_whale_std::fee_distributor::QueryMsg::CurrentEpoch {}).unwrap();
        r.epoch.id.u64()
    }
    pub fn positions(&self, u: &Addr) -> (Vec<(u64, u128)>, Vec<u128>) {
        let r: im::PositionsResponse = query(&self.app, &self.incentive, &im::QueryMsg::Positions { address: u.to_string() }).unwrap();
        let mut open = vec![];
        let mut closed = vec![];
        for p in r.positions {
            match p {
                im::QueryPosition::OpenPosition { amount, unbonding_duration, .. } => open.push((unbonding_duration, amount.u128())),
                im::QueryPosition::ClosedPosition { amount, .. } => closed.push(amount.u128()),
            }
        }
        (open, closed)
    }
    /// all flows, read from the contract's raw storage (the Flows query truncates the per-epoch maps
    /// to 100 epochs and cannot be decoded by serde-json-wasm because of integer map keys)
    pub fn flows(&self) -> Vec<im::Flow> {
        let mut out: Vec<im::Flow> = vec![];
        for (k, v) in raw_dump(&self.app, &self.incentive) {
            if k.len() > 7 && k[0] == 0 && k[1] == 5 && &k[2..7] == b"flows" {
                if let Ok(f) = serde_json::from_slice::<im::Flow>(&v) {
                    out.push(f);
                }
            }
        }
        out.sort_by_key(|f| (f.start_epoch, f.flow_id));
        out
    }
    pub fn rewards(&self, u: &Addr) -> Result<Vec<Asset>, String> {
        let r: im::RewardsResponse = query(&self.app, &self.incentive, &im::QueryMsg::Rewards { address: u.to_string() })?;
        Ok(r.rewards)
    }
    pub fn raw_weights(&self) -> (u128, BTreeMap<String, u128>) {
        let mut global = 0u128;
        let mut m = BTreeMap::new();
        for (k, v) in raw_dump(&self.app, &self.incentive) {
            if k == b"global_weight" {
                global = serde_json::from_slice::<Uint128>(&v).map(|x| x.u128()).unwrap_or(0);
            } else if k.len() > 2 && k[0] == 0 && k[1] as usize == "address_weight".len() && &k[2..2 + "address_weight".len()] == b"address_weight" {
                let addr = String::from_utf8_lossy(&k[2 + "address_weight".len()..]).to_string();
                let wv = serde_json::from_slice::<Uint128>(&v).map(|x| x.u128()).unwrap_or(0);
                m.insert(addr, wv);
            }
        }
        (global, m)
    }
}

pub fn funded_of(f: &im::Flow) -> u128 {
    f.asset_history.values().next_back().map(|(a, _)| a.u128()).unwrap_or(f.flow_asset.amount.u128())
}

pub fn build_inc(r: &mut Rng, variant: u64) -> IncWorld {
    let owner = Addr::unchecked("owner");
    let users: Vec<Addr> = vec![Addr::unchecked("user0"), Addr::unchecked("user1"), Addr::unchecked("user2"), Addr::unchecked("attacker")];
    let denoms = ["uwhale", "ulp", "ureward", "uaaa", "ampWHALE", "bWHALE"];
    let mut balances = vec![];
    for u in users.iter().chain(std::iter::once(&owner)) {
        balances.push((u.clone(), denoms.iter().map(|d| coin(FUNDS, *d)).collect::<Vec<_>>()));
    }
    let mut app = new_app(balances);
    let core = deploy_core(&mut app, &owner, &CoreParams::default());
    let holders: Vec<(Addr, u128)> = users.iter().chain(std::iter::once(&owner)).map(|u| (u.clone(), FUNDS)).collect();
    let rwd = create_cw20(&mut app, &core.codes, &owner, "RWD", 6, &holders, None);
    let feetok = create_cw20(&mut app, &core.codes, &owner, "FEE", 6, &holders, None);
    let tkb = create_cw20(&mut app, &core.codes, &owner, "TKB", 6, &holders, None);
    let mut tokens = vec![rwd.clone(), feetok.clone(), tkb.clone()];
    // fee asset kind: native uwhale / cw20 FEE / cw20 RWD (same as a reward asset) / native ureward (same as a reward asset)
    let fee_asset = match variant % 4 {
        0 => AssetRef::Native("uwhale".into()),
        1 => AssetRef::Cw20(feetok.clone()),
        2 => AssetRef::Cw20(rwd.clone()),
        _ => AssetRef::Native("ureward".into()),
    };
    let fee_amount = *r.pick(&[1000u128, 1, 5_000_000, 999]);
    let ifactory = inst(
        &mut app,
        core.codes.incentive_factory,
        &owner,
        &ifm::InstantiateMsg {
            fee_collector_addr: core.collector.to_string(),
            fee_distributor_addr: core.distributor.to_string(),
            create_flow_fee: fee_asset.asset(fee_amount),
            max_concurrent_flows: 4,
            incentive_code_id: core.codes.incentive,
            max_flow_epoch_buffer: 14,
            min_unbonding_duration: MIN_DUR,
            max_unbonding_duration: MAX_DUR,
        },
        &[],
        "incentive_factory",
        Some(owner.to_string()),
    )
    .unwrap();
    let helper = inst(&mut app, core.codes.helper, &owner, &white_whale_std::pool_network::frontend_helper::InstantiateMsg { incentive_factory: ifactory.to_string() }, &[], "frontend_helper", None).unwrap();
    catch_up_epochs(&mut app, &core, &owner);
    // LP asset: native denom or the cw20 LP of a real pair (uaaa / TKB)
    let native_lp = (variant / 4) % 2 == 0;
    let (lp, pair) = if native_lp {
        (AssetRef::Native("ulp".into()), None)
    } else {
        add_native_decimals(&mut app, &owner, &core.factory, "uaaa", 6);
        let h = create_pair(&mut app, &owner, &core.factory, [AssetRef::Native("uaaa".into()), AssetRef::Cw20(tkb.clone())], pool_fee([ONE18 / 1000, ONE18 / 500, 0]), PairType::ConstantProduct).unwrap();
        // every user provides some liquidity to own LP tokens
        for u in users.iter().chain(std::iter::once(&owner)) {
            let a = r.range128(1_000_000_000, 1_000_000_000_000);
            cw20_allow(&mut app, &tkb, u, &h.addr, a);
            exec(&mut app, u, &h.addr, &pm::ExecuteMsg::ProvideLiquidity { assets: [h.assets[0].asset(a), h.assets[1].asset(a)], slippage_tolerance: None, receiver: None }, &[coin(a, "uaaa")]).unwrap();
        }
        tokens.push(h.lp.clone());
        (AssetRef::Cw20(h.lp.clone()), Some(h))
    };
    exec(&mut app, &owner, &ifactory, &ifm::ExecuteMsg::CreateIncentive { lp_asset: lp.info() }, &[]).unwrap();
    let incentive: Option<Addr> = query(&app, &ifactory, &ifm::QueryMsg::Incentive { lp_asset: lp.info() }).unwrap();
    let incentive = incentive.expect("incentive registered");
    let rewards = vec![AssetRef::Native("ureward".into()), AssetRef::Cw20(rwd), lp.clone(), AssetRef::Native("uwhale".into())];
    let mut wd = IncWorld { app, core, users, ifactory, incentive, helper, lp, pair, fee_asset, fee_amount, rewards, tokens, ops: vec![], creators: BTreeMap::new(), claimed_in_epoch: BTreeMap::new(), close_before_snapshot_epoch: None, epoch0: 0 };
    wd.epoch0 = wd.epoch();
    wd
}

fn detail(wd: &IncWorld, extra: Value) -> Value {
    json!({"lp": wd.lp.id(), "fee_asset": wd.fee_asset.id(), "fee_amount": wd.fee_amount.to_string(), "epoch": wd.epoch(), "last_ops": wd.tail(25), "extra": extra})
}

fn set_allowance(app: &mut App, token: &Addr, owner: &Addr, spender: &Addr, amount: u128) {
    let cur: cw20::AllowanceResponse = query(app, token, &cw20::Cw20QueryMsg::Allowance { owner: owner.to_string(), spender: spender.to_string() }).unwrap();
    if !cur.allowance.is_zero() {
        let _ = exec(app, owner, token, &cw20::Cw20ExecuteMsg::DecreaseAllowance { spender: spender.to_string(), amount: cur.allowance, expires: None }, &[]);
    }
    if amount > 0 {
        cw20_allow(app, token, owner, spender, amount);
    }
}

/// K1 + F1 + F3 + W1 after every committed step
pub fn check_state(acc: &mut Acc, wd: &IncWorld, what: &str) {
    // K1 / F1: balances cover positions and unclaimed flow funds
    acc.count("check.K1");
    let flows = wd.flows();
    let mut pos_sum = 0u128;
    for u in &wd.users {
        let (o, c) = wd.positions(u);
        pos_sum += o.iter().map(|x| x.1).sum::<u128>() + c.iter().sum::<u128>();
    }
    let mut per_asset: BTreeMap<String, u128> = BTreeMap::new();
    for f in &flows {
        acc.count("check.F3");
        let funded = funded_of(f);
        if f.claimed_amount.u128() > funded {
            acc.violation("C12", "F3/claimed>funded", detail(wd, json!({"flow": f.flow_id, "claimed": f.claimed_amount.to_string(), "funded": funded.to_string(), "step": what})));
        }
        *per_asset.entry(AssetRef::from_info(&f.flow_asset.info).id()).or_insert(0) += funded.saturating_sub(f.claimed_amount.u128());
    }
    let lp_bal = wd.lp.balance(&wd.app, &wd.incentive);
    let lp_flows = per_asset.get(&wd.lp.id()).copied().unwrap_or(0);
    if lp_bal != pos_sum + lp_flows {
        let class = if lp_bal > pos_sum + lp_flows { "balance>positions+flows" } else { "balance<positions+flows" };
        acc.violation("C11", &format!("K1/lp-{class}"), detail(wd, json!({"lp_balance": lp_bal.to_string(), "positions": pos_sum.to_string(), "lp_flows_unclaimed": lp_flows.to_string(), "step": what})));
    }
    acc.count("check.F1");
    for a in &wd.rewards {
        if a.id() == wd.lp.id() {
            continue;
        }
        let need = per_asset.get(&a.id()).copied().unwrap_or(0);
        let have = a.balance(&wd.app, &wd.incentive);
        if have < need {
            acc.violation("C12", "F1/reward-balance<funded-claimed", detail(wd, json!({"asset": a.id(), "balance": have.to_string(), "owed": need.to_string(), "step": what})));
        }
    }
    // W1
    acc.count("check.W1");
    let (g, m) = wd.raw_weights();
    let s: u128 = m.values().sum();
    if g != s {
        let class = if g < s { "global<sum" } else { "global>sum" };
        acc.violation("C13", &format!("W1/global-weight!=sum-of-address-weights/{class}"), detail(wd, json!({"global": g.to_string(), "sum": s.to_string(), "weights": format!("{m:?}"), "step": what})));
    }
}

/// W2 — once the snapshot of the current epoch exists, shares add up to at most 100%
pub fn check_shares(acc: &mut Acc, wd: &IncWorld, what: &str) {
    let mut total = U1024::zero();
    let mut any = false;
    for u in &wd.users {
        let r: Result<im::RewardsShareResponse, String> = query(&wd.app, &wd.incentive, &im::QueryMsg::CurrentEpochRewardsShare { address: u.to_string() });
        match r {
            Ok(s) => {
                any = true;
                total = total + U1024::from_dec_str(&s.share.atomics().to_string()).unwrap_or_default();
            }
            Err(_) => return,
        }
    }
    if any {
        acc.count("check.W2");
        if total > w(ONE18) {
            let e = wd.epoch();
            let tag = if wd.close_before_snapshot_epoch == Some(e) { "/close-preceded-the-epoch-snapshot" } else { "" };
            acc.violation("C13", &format!("W2/shares-exceed-100%{tag}"), detail(wd, json!({"sum_share_atomics": total.to_string(), "step": what})));
        } else {
            acc.slack("W2.one-minus-sum", diff_f64(&w(ONE18), &total) / 1e18, || what.to_string());
        }
    }
}

fn funds_for(asset: &AssetRef, amount: u128) -> Vec<Coin> {
    asset.funds(amount)
}

pub fn op_position(acc: &mut Acc, wd: &mut IncWorld, ui: usize, expand: bool, amount: u128, dur: u64, receiver: Option<usize>, fault: u8) -> bool {
    let usr = wd.users[ui].clone();
    let inc = wd.incentive.clone();
    let what = format!("{} user{ui} amount={amount} dur={dur} receiver={receiver:?} fault={fault}", if expand { "expand_position" } else { "open_position" });
    wd.log(what.clone());
    // funding: fault 0 = exact; 1 = under-funded (native: less coins; cw20: smaller allowance); 2 = wrong denom (native only) ; 3 = over-funded
    let mut funds: Vec<Coin> = vec![];
    match &wd.lp {
        AssetRef::Native(d) => {
            funds = match fault {
                1 => funds_for(&wd.lp, amount.saturating_sub(1)),
                2 => vec![coin(amount, "uaaa")],
                3 => vec![coin(amount + 1, d)],
                _ => funds_for(&wd.lp, amount),
            };
        }
        AssetRef::Cw20(t) => {
            let allow = match fault {
                1 => amount.saturating_sub(1),
                3 => amount + 5,
                _ => amount,
            };
            set_allowance(&mut wd.app, t, &usr, &inc, allow);
            // the receiver of a position often has a standing approval of its own towards the incentive contract
            // (wallets grant them once): the deposit must still come out of the sender's pocket
            if let Some(ri) = receiver {
                if ri != ui && amount % 2 == 0 {
                    let rcv = wd.users[ri].clone();
                    set_allowance(&mut wd.app, t, &rcv, &inc, u128::MAX / 4);
                    acc.count("position.receiver-has-standing-allowance");
                }
            }
        }
    }
    let before = snap(&wd.app);
    let bal_pre = wd.lp.balance(&wd.app, &inc);
    let sender_pre = wd.lp.balance(&wd.app, &usr);
    let target = receiver.map(|i| wd.users[i].clone()).unwrap_or(usr.clone());
    let pos_pre = wd.positions(&target);
    let msg = if expand {
        im::ExecuteMsg::ExpandPosition { amount: Uint128::new(amount), unbonding_duration: dur, receiver: receiver.map(|i| wd.users[i].to_string()) }
    } else {
        im::ExecuteMsg::OpenPosition { amount: Uint128::new(amount), unbonding_duration: dur, receiver: receiver.map(|i| wd.users[i].to_string()) }
    };
    let res = exec(&mut wd.app, &usr, &inc, &msg, &funds);
    match res {
        Err(_) => {
            acc.count("position.rejected");
            acc.count("check.U1");
            if !same_state(&before, &snap(&wd.app)) {
                acc.violation("C11", "U1/rejected-call-changed-state", detail(wd, json!({"step": what})));
            }
            false
        }
        Ok(_) => {
            acc.count(if expand { "expand_position.ok" } else { "open_position.ok" });
            if receiver.is_some() && receiver != Some(ui) {
                acc.count("position.for-receiver.ok");
            }
            acc.count("check.K3");
            let bal_post = wd.lp.balance(&wd.app, &inc);
            let sender_post = wd.lp.balance(&wd.app, &usr);
            if bal_post.wrapping_sub(bal_pre) != amount || sender_pre.wrapping_sub(sender_post) != amount {
                let class = if fault == 1 || fault == 2 { "/under-or-wrongly-funded" } else { "" };
                acc.violation("C11", &format!("K3/position-amount-not-received-from-sender{class}"), detail(wd, json!({"amount": amount.to_string(), "contract_delta": (bal_post as i128 - bal_pre as i128).to_string(), "sender_delta": (sender_post as i128 - sender_pre as i128).to_string(), "step": what})));
            }
            let pos_post = wd.positions(&target);
            let pre_amt = pos_pre.0.iter().find(|x| x.0 == dur).map(|x| x.1).unwrap_or(0);
            let post_amt = pos_post.0.iter().find(|x| x.0 == dur).map(|x| x.1).unwrap_or(0);
            if post_amt != pre_amt + amount {
                acc.violation("C11", "K3/position-not-credited-to-receiver", detail(wd, json!({"pre": pre_amt.to_string(), "post": post_amt.to_string(), "amount": amount.to_string(), "step": what})));
            }
            check_state(acc, wd, &what);
            true
        }
    }
}

pub fn op_close(acc: &mut Acc, wd: &mut IncWorld, ui: usize, dur: u64) -> bool {
    let usr = wd.users[ui].clone();
    let what = format!("close_position user{ui} dur={dur}");
    wd.log(what.clone());
    let pre = wd.positions(&usr);
    let inc = wd.incentive.clone();
    let e = wd.epoch();
    let snapshot_exists = query::<im::GlobalWeightResponse, _>(&wd.app, &inc, &im::QueryMsg::GlobalWeight { epoch_id: e }).is_ok();
    let res = exec(&mut wd.app, &usr, &inc, &im::ExecuteMsg::ClosePosition { unbonding_duration: dur }, &[]);
    match res {
        Err(_) => {
            acc.count("close_position.rejected");
            false
        }
        Ok(_) => {
            acc.count("close_position.ok");
            if !snapshot_exists {
                acc.count("close_position.before-epoch-snapshot");
                wd.close_before_snapshot_epoch = Some(e);
            }
            let post = wd.positions(&usr);
            let amt = pre.0.iter().find(|x| x.0 == dur).map(|x| x.1).unwrap_or(0);
            acc.count("check.K2.close");
            let mut want_closed = pre.1.clone();
            want_closed.push(amt);
            want_closed.sort();
            let mut got_closed = post.1.clone();
            got_closed.sort();
            if got_closed != want_closed || post.0.iter().any(|x| x.0 == dur) {
                acc.violation("C11", "K2/close-did-not-move-position-one-for-one", detail(wd, json!({"pre": format!("{pre:?}"), "post": format!("{post:?}"), "step": what})));
            }
            check_state(acc, wd, &what);
            true
        }
    }
}

pub fn op_withdraw(acc: &mut Acc, wd: &mut IncWorld, ui: usize) {
    let usr = wd.users[ui].clone();
    let what = format!("withdraw user{ui}");
    wd.log(what.clone());
    let pre: Vec<(Vec<(u64, u128)>, Vec<u128>)> = wd.users.iter().map(|u| wd.positions(u)).collect();
    let bal_pre = all_balances(&wd.app, &wd.tokens);
    let inc = wd.incentive.clone();
    let res = exec(&mut wd.app, &usr, &inc, &im::ExecuteMsg::Withdraw {}, &[]);
    if res.is_err() {
        acc.count("withdraw_position.rejected");
        return;
    }
    acc.count("withdraw_position.ok");
    acc.count("check.K2.withdraw");
    let post: Vec<(Vec<(u64, u128)>, Vec<u128>)> = wd.users.iter().map(|u| wd.positions(u)).collect();
    let bal_post = all_balances(&wd.app, &wd.tokens);
    let want: u128 = pre[ui].1.iter().sum();
    if want > 0 {
        acc.count("withdraw_position.paid");
    }
    let lpid = wd.lp.id();
    let mut paid = 0i128;
    for (a, asset, b, c) in balance_diff(&bal_pre, &bal_post) {
        let d = c as i128 - b as i128;
        if a == usr.as_str() && asset == lpid {
            paid = d;
        } else if a == inc.as_str() && asset == lpid {
            if -d != want as i128 {
                acc.violation("C11", "K2/withdraw-contract-delta!=closed-positions", detail(wd, json!({"delta": d.to_string(), "closed_sum": want.to_string(), "step": what})));
            }
        } else {
            acc.violation("C11", "K2/withdraw-moved-foreign-balance", detail(wd, json!({"account": a, "asset": asset, "delta": d.to_string(), "step": what})));
        }
    }
    if paid != want as i128 {
        acc.violation("C11", "K2/withdraw-paid!=sum-of-own-closed-positions", detail(wd, json!({"paid": paid.to_string(), "closed_sum": want.to_string(), "step": what})));
    }
    for i in 0..wd.users.len() {
        if i == ui {
            if !post[i].1.is_empty() || post[i].0 != pre[i].0 {
                acc.violation("C11", "K2/withdraw-left-or-touched-own-positions", detail(wd, json!({"pre": format!("{:?}", pre[i]), "post": format!("{:?}", post[i]), "step": what})));
            }
        } else if post[i] != pre[i] {
            acc.violation("C11", "K2/withdraw-changed-another-users-positions", detail(wd, json!({"user": i, "step": what})));
        }
    }
    check_state(acc, wd, &what);
}

/// deposit through the frontend helper (cw20-LP variant only)
/// fault: 0 exact funds, 1 more of the pool's native denom attached than declared, 2 an extra (unrelated) denom attached,
/// 3 a cw20 approval towards the helper that is larger than the deposited amount (left over from an earlier attempt)
pub fn op_helper_deposit(acc: &mut Acc, wd: &mut IncWorld, ui: usize, amount: u128, dur: u64, fault: u8) {
    let Some(pair) = &wd.pair else { return };
    let usr = wd.users[ui].clone();
    let (pa, a0, a1, lp) = (pair.addr.clone(), pair.assets[0].clone(), pair.assets[1].clone(), pair.lp.clone());
    let pool: pm::PoolResponse = query(&wd.app, &pa, &pm::QueryMsg::Pool {}).unwrap();
    let (r0, r1) = (pool.assets[0].amount.u128(), pool.assets[1].amount.u128());
    let d0 = amount;
    let d1 = (to_u128(&(w(amount) * w(r1) / w(r0.max(1)))).unwrap_or(amount)).max(1);
    let what = format!("helper_deposit user{ui} [{d0},{d1}] dur={dur} fault={fault}");
    wd.log(what.clone());
    let helper = wd.helper.clone();
    if let AssetRef::Cw20(t) = &a1 {
        set_allowance(&mut wd.app, t, &usr, &helper, if fault == 3 { d1 + 1 + d1 / 3 } else { d1 });
    }
    // standing approval of the user's LP tokens towards the incentive contract (granted once by wallets)
    if d0 % 2 == 0 {
        let inc = wd.incentive.clone();
        set_allowance(&mut wd.app, &lp, &usr, &inc, u128::MAX / 4);
    }
    let pos_pre = wd.positions(&usr);
    let inc_pre = wd.lp.balance(&wd.app, &wd.incentive);
    let res = exec(
        &mut wd.app,
        &usr,
        &helper,
        &white_whale_std::pool_network::frontend_helper::ExecuteMsg::Deposit { pair_address: pa.to_string(), assets: [a0.asset(d0), a1.asset(d1)], slippage_tolerance: None, unbonding_duration: dur },
        &{
            let mut f = a0.funds(if fault == 1 { d0 + 1 + d0 / 7 } else { d0 });
            if fault == 2 {
                f.push(coin(1_000 + d0 % 1000, "uwhale"));
                f.sort_by(|a, b| a.denom.cmp(&b.denom));
            }
            f
        },
    );
    match res {
        Err(_) => acc.count(if fault == 0 { "helper.rejected" } else { "helper.rejected.with-surplus-funds" }),
        Ok(_) => {
            acc.count("helper.ok");
            if fault != 0 {
                acc.count("helper.ok.with-surplus-funds");
            }
            acc.count("check.K4");
            for a in [&a0, &a1, &AssetRef::Cw20(lp.clone())] {
                let b = a.balance(&wd.app, &helper);
                if b != 0 {
                    acc.violation("C11", "K4/frontend-helper-retains-funds", detail(wd, json!({"asset": a.id(), "balance": b.to_string(), "step": what})));
                }
            }
            // nothing at all may stay with the helper (surplus or unrelated coins included)
            for ((acct, asset), b) in all_balances(&wd.app, &wd.tokens) {
                if acct == helper.as_str() && b != 0 && asset != a0.id() && asset != a1.id() && asset != lp.as_str() {
                    acc.violation("C11", "K4/frontend-helper-retains-funds", detail(wd, json!({"asset": asset, "balance": b.to_string(), "step": what})));
                }
            }
            let pos_post = wd.positions(&usr);
            let pre_amt = pos_pre.0.iter().find(|x| x.0 == dur).map(|x| x.1).unwrap_or(0);
            let post_amt = pos_post.0.iter().find(|x| x.0 == dur).map(|x| x.1).unwrap_or(0);
            let inc_post = wd.lp.balance(&wd.app, &wd.incentive);
            if post_amt - pre_amt != inc_post - inc_pre || post_amt == pre_amt {
                acc.violation("C11", "K4/helper-position!=lp-received-by-incentive", detail(wd, json!({"position_delta": (post_amt - pre_amt).to_string(), "lp_delta": (inc_post - inc_pre).to_string(), "step": what})));
            }
            check_state(acc, wd, &what);
        }
    }
}

/// open flow with funding faults. pay: 0 exact, 1 fee only (flow not funded), 2 under-pay the flow by 1, 3 over-pay, 4 right amount in the wrong native denom
pub fn op_open_flow(acc: &mut Acc, wd: &mut IncWorld, ui: usize, asset: &AssetRef, amount: u128, start: Option<u64>, end: Option<u64>, pay: u8) {
    let usr = wd.users[ui].clone();
    let inc = wd.incentive.clone();
    let same = asset.id() == wd.fee_asset.id();
    let fee = wd.fee_amount;
    let what = format!("open_flow user{ui} asset={} amount={amount} start={start:?} end={end:?} pay={pay} same_as_fee={same}", asset.id());
    wd.log(what.clone());
    // what the sender actually hands over of the flow asset (excluding a separate fee asset)
    let flow_part = if same { amount.saturating_sub(fee) } else { amount };
    let give_flow = match pay {
        1 => 0,
        2 => flow_part.saturating_sub(1),
        3 => flow_part + 7,
        _ => flow_part,
    };
    let mut funds: BTreeMap<String, u128> = BTreeMap::new();
    // fee
    match &wd.fee_asset {
        AssetRef::Native(d) => {
            *funds.entry(d.clone()).or_insert(0) += fee;
        }
        AssetRef::Cw20(t) => {
            if !same {
                set_allowance(&mut wd.app, t, &usr, &inc, fee);
            }
        }
    }
    match asset {
        AssetRef::Native(d) => {
            // pay == 4: the right amount in the wrong native denom
            let dn = if pay == 4 { if d == "uaaa" { "ampWHALE".to_string() } else { "uaaa".to_string() } } else { d.clone() };
            *funds.entry(dn).or_insert(0) += give_flow;
        }
        AssetRef::Cw20(t) => {
            let allow = if same { give_flow + fee } else { give_flow };
            set_allowance(&mut wd.app, t, &usr, &inc, allow);
        }
    }
    let funds: Vec<Coin> = funds.into_iter().filter(|(_, v)| *v > 0).map(|(d, v)| coin(v, d)).collect();
    let before = snap(&wd.app);
    let flows_pre = wd.flows();
    let bal_pre = all_balances(&wd.app, &wd.tokens);
    let res = exec(&mut wd.app, &usr, &inc, &im::ExecuteMsg::OpenFlow { start_epoch: start, end_epoch: end, curve: None, flow_asset: asset.asset(amount), flow_label: match amount % 5 { 0 | 1 => Some("promo".to_string()), 2 => Some("boost".to_string()), _ => None } }, &funds);
    match res {
        Err(_) => {
            acc.count("open_flow.rejected");
            acc.count("check.U1");
            if !same_state(&before, &snap(&wd.app)) {
                acc.violation("C12", "U1/rejected-call-changed-state", detail(wd, json!({"step": what})));
            }
        }
        Ok(resp) => {
            acc.count("open_flow.ok");
            if same {
                acc.count("open_flow.ok.reward==fee-asset");
            }
            check_flow_funding(acc, wd, &resp, &flows_pre, &bal_pre, &usr, asset, true, pay, &what, ui);
            check_state(acc, wd, &what);
        }
    }
}

fn check_flow_funding(acc: &mut Acc, wd: &mut IncWorld, _resp: &AppResponse, flows_pre: &[im::Flow], bal_pre: &BTreeMap<(String, String), u128>, usr: &Addr, asset: &AssetRef, opening: bool, pay: u8, what: &str, ui: usize) {
    acc.count("check.F2");
    let flows_post = wd.flows();
    let bal_post = all_balances(&wd.app, &wd.tokens);
    // outstanding = funded - claimed: an expansion that resets a flow folds the claimed amount into the new base amount
    let outstanding = |f: &im::Flow| funded_of(f) as i128 - f.claimed_amount.u128() as i128;
    let funded_pre: i128 = flows_pre.iter().filter(|f| AssetRef::from_info(&f.flow_asset.info) == *asset).map(outstanding).sum();
    let funded_post: i128 = flows_post.iter().filter(|f| AssetRef::from_info(&f.flow_asset.info) == *asset).map(outstanding).sum();
    let d_funded = funded_post - funded_pre;
    if flows_post.iter().any(|f| flows_pre.iter().any(|g| g.flow_id == f.flow_id && g.start_epoch != f.start_epoch)) {
        acc.count("expand_flow.ok.flow-reset");
    }
    let get = |m: &BTreeMap<(String, String), u128>, a: &str, s: &str| m.get(&(a.to_string(), s.to_string())).copied().unwrap_or(0) as i128;
    let inc = wd.incentive.to_string();
    let d_contract = get(&bal_post, &inc, &asset.id()) - get(&bal_pre, &inc, &asset.id());
    if d_funded != d_contract {
        let class = match (opening, asset.id() == wd.fee_asset.id(), pay) {
            (true, true, 1) | (true, true, 2) => "/reward==fee-asset/under-funded",
            (true, true, 3) => "/reward==fee-asset/over-funded",
            _ => "",
        };
        acc.violation("C12", &format!("F2/funded-increase!=tokens-received{class}"), detail(wd, json!({"funded_delta": d_funded.to_string(), "contract_delta": d_contract.to_string(), "step": what})));
    }
    if opening {
        let coll = wd.core.collector.to_string();
        let d_coll = get(&bal_post, &coll, &wd.fee_asset.id()) - get(&bal_pre, &coll, &wd.fee_asset.id());
        if d_coll != wd.fee_amount as i128 {
            acc.violation("C12", "F2/creation-fee-not-sent-to-collector", detail(wd, json!({"collector_delta": d_coll.to_string(), "fee": wd.fee_amount.to_string(), "step": what})));
        }
        for f in &flows_post {
            if !flows_pre.iter().any(|g| g.flow_id == f.flow_id) {
                wd.creators.insert(f.flow_id, ui);
            }
        }
    }
    let _ = usr;
}

pub fn op_expand_flow(acc: &mut Acc, wd: &mut IncWorld, ui: usize, flow: &im::Flow, amount: u128, end: Option<u64>, pay: u8) {
    let usr = wd.users[ui].clone();
    let inc = wd.incentive.clone();
    let asset = AssetRef::from_info(&flow.flow_asset.info);
    let what = format!("expand_flow user{ui} flow={} amount={amount} end={end:?} pay={pay}", flow.flow_id);
    wd.log(what.clone());
    let give = match pay {
        2 => amount.saturating_sub(1),
        3 => amount + 3,
        _ => amount,
    };
    let funds = match &asset {
        // pay == 4: the right amount in the wrong native denom
        AssetRef::Native(d) if pay == 4 => vec![coin(give, if d == "uaaa" { "ampWHALE" } else { "uaaa" })],
        AssetRef::Native(_) => asset.funds(give),
        AssetRef::Cw20(t) => {
            set_allowance(&mut wd.app, t, &usr, &inc, give);
            vec![]
        }
    };
    let flows_pre = wd.flows();
    let bal_pre = all_balances(&wd.app, &wd.tokens);
    let res = exec(&mut wd.app, &usr, &inc, &im::ExecuteMsg::ExpandFlow { flow_identifier: im::FlowIdentifier::Id(flow.flow_id), end_epoch: end, flow_asset: asset.asset(amount) }, &funds);
    match res {
        Err(_) => acc.count("expand_flow.rejected"),
        Ok(resp) => {
            acc.count("expand_flow.ok");
            check_flow_funding(acc, wd, &resp, &flows_pre, &bal_pre, &usr, &asset, false, pay, &what, ui);
            check_state(acc, wd, &what);
        }
    }
}

pub fn op_close_flow(acc: &mut Acc, wd: &mut IncWorld, who: &Addr, role: &str, flow: &im::Flow) {
    // labels are free text and not unique: half of the closes of a labelled flow name it by label, which resolves to the
    // first flow carrying that label — possibly somebody else's; the caller's role is then judged against that flow
    let by_label = flow.flow_label.is_some() && wd.ops.len() % 2 == 0;
    let target: im::Flow = if by_label { wd.flows().into_iter().find(|f| f.flow_label == flow.flow_label).unwrap_or_else(|| flow.clone()) } else { flow.clone() };
    let role: &str = if !by_label {
        role
    } else if *who == wd.core.owner {
        "factory-owner"
    } else if *who == target.flow_creator {
        "creator"
    } else {
        "stranger"
    };
    if by_label {
        acc.count("close_flow.by-label");
        if target.flow_id != flow.flow_id {
            acc.count("close_flow.by-label.resolves-to-another-flow");
            if *who == flow.flow_creator && role == "stranger" {
                acc.count("close_flow.by-label.caller-owns-a-later-flow-with-the-same-label");
            }
        }
    }
    let flow = &target;
    let identifier = if by_label { im::FlowIdentifier::Label(flow.flow_label.clone().unwrap()) } else { im::FlowIdentifier::Id(flow.flow_id) };
    let inc = wd.incentive.clone();
    let asset = AssetRef::from_info(&flow.flow_asset.info);
    let expanded = !flow.asset_history.is_empty();
    let what = format!("close_flow by {role} flow={} expanded={expanded} identified-by={}", flow.flow_id, if by_label { "label" } else { "id" });
    wd.log(what.clone());
    let bal_pre = all_balances(&wd.app, &wd.tokens);
    let before = snap(&wd.app);
    let funded = funded_of(flow);
    let due = funded.saturating_sub(flow.claimed_amount.u128());
    let res = exec(&mut wd.app, who, &inc, &im::ExecuteMsg::CloseFlow { flow_identifier: identifier }, &[]);
    let creator = flow.flow_creator.to_string();
    match res {
        Err(_) => {
            acc.count("close_flow.rejected");
            if role == "stranger" {
                acc.count("check.F5");
            } else {
                acc.count("close_flow.rejected-for-authorised-caller");
            }
            if !same_state(&before, &snap(&wd.app)) {
                acc.violation("C12", "U1/rejected-call-changed-state", detail(wd, json!({"step": what})));
            }
        }
        Ok(_) => {
            acc.count("close_flow.ok");
            if expanded {
                acc.count("close_flow.ok.expanded");
            }
            acc.count("check.F4");
            if role == "stranger" {
                acc.count("check.F5");
                acc.violation("C12", "F5/flow-closed-by-stranger", detail(wd, json!({"step": what})));
            }
            let bal_post = all_balances(&wd.app, &wd.tokens);
            let get = |m: &BTreeMap<(String, String), u128>, a: &str, s: &str| m.get(&(a.to_string(), s.to_string())).copied().unwrap_or(0) as i128;
            let got = get(&bal_post, &creator, &asset.id()) - get(&bal_pre, &creator, &asset.id());
            if got != due as i128 {
                let class = if expanded { "/expanded-flow" } else { "" };
                acc.violation("C12", &format!("F4/close-refund!=funded-claimed{class}"), detail(wd, json!({"refund": got.to_string(), "funded": funded.to_string(), "claimed": flow.claimed_amount.to_string(), "step": what})));
            }
            if wd.flows().iter().any(|f| f.flow_id == flow.flow_id) {
                acc.violation("C12", "F4/closed-flow-still-listed", detail(wd, json!({"step": what})));
            }
            for (a, s, b, c) in balance_diff(&bal_pre, &bal_post) {
                if !((a == creator && s == asset.id()) || (a == inc.as_str() && s == asset.id())) {
                    acc.violation("C12", "F4/close-moved-foreign-balance", detail(wd, json!({"account": a, "asset": s, "delta": (c as i128 - b as i128).to_string(), "step": what})));
                }
            }
            check_state(acc, wd, &what);
        }
    }
}

pub fn op_claim(acc: &mut Acc, wd: &mut IncWorld, ui: usize) -> bool {
    let usr = wd.users[ui].clone();
    let inc = wd.incentive.clone();
    let e = wd.epoch();
    let what = format!("claim user{ui} epoch={e}");
    wd.log(what.clone());
    let quoted = wd.rewards(&usr);
    let flows_pre = wd.flows();
    let bal_pre = all_balances(&wd.app, &wd.tokens);
    let already = wd.claimed_in_epoch.get(&ui) == Some(&e);
    let res = exec(&mut wd.app, &usr, &inc, &im::ExecuteMsg::Claim {}, &[]);
    match res {
        Err(_) => {
            acc.count("claim_rewards.rejected");
            if already {
                acc.count("check.W3");
            }
            false
        }
        Ok(_) => {
            acc.count("claim_rewards.ok");
            let bal_post = all_balances(&wd.app, &wd.tokens);
            let flows_post = wd.flows();
            let mut paid: BTreeMap<String, i128> = BTreeMap::new();
            for (a, s, b, c) in balance_diff(&bal_pre, &bal_post) {
                if a == usr.as_str() {
                    paid.insert(s, c as i128 - b as i128);
                } else if a != inc.as_str() {
                    acc.violation("C13", "W5/claim-moved-foreign-balance", detail(wd, json!({"account": a, "asset": s, "step": what})));
                }
            }
            let total_paid: i128 = paid.values().sum();
            if already {
                acc.count("check.W3");
                if total_paid != 0 {
                    acc.violation("C13", "W3/second-claim-in-one-epoch-paid", detail(wd, json!({"paid": format!("{paid:?}"), "step": what})));
                }
            }
            if total_paid > 0 {
                acc.count("claim_rewards.paid");
            }
            // W5: quoted == paid per asset — the statement covers "up to 100 unclaimed epochs"
            let unclaimed_span = e.saturating_sub(wd.claimed_in_epoch.get(&ui).copied().unwrap_or(wd.epoch0.saturating_sub(1)));
            if unclaimed_span > 100 {
                acc.count("W5.not-judged.more-than-100-unclaimed-epochs");
            } else if let Ok(q) = &quoted {
                if unclaimed_span >= 50 {
                    acc.count("check.W5.with-50-to-100-unclaimed-epochs");
                }
                acc.count("check.W5");
                let mut qm: BTreeMap<String, i128> = BTreeMap::new();
                for a in q {
                    *qm.entry(AssetRef::from_info(&a.info).id()).or_insert(0) += a.amount.u128() as i128;
                }
                qm.retain(|_, v| *v != 0);
                let mut pm_: BTreeMap<String, i128> = paid.clone();
                pm_.retain(|_, v| *v != 0);
                if qm != pm_ {
                    acc.violation("C13", "W5/claim-paid!=rewards-query", detail(wd, json!({"quoted": format!("{qm:?}"), "paid": format!("{pm_:?}"), "step": what})));
                }
            }
            // W4: per flow, what the claim took is at most the emissions of the epochs it covered
            acc.count("check.W4");
            for f in &flows_post {
                let Some(p) = flows_pre.iter().find(|g| g.flow_id == f.flow_id) else { continue };
                let took = f.claimed_amount.u128().saturating_sub(p.claimed_amount.u128());
                if took == 0 {
                    continue;
                }
                // upper bound for what the epochs covered by one claim can emit: every epoch e in
                // [start, current] emits at most funded(e) / (end(e) - e) (the contract's own cumulative
                // emitted_tokens map is filled in claim order and is not a reliable per-epoch record)
                let mut bound = U1024::zero();
                for ep in f.start_epoch..=e {
                    let funded_e = f.asset_history.range(..=ep).next_back().map(|(_, v)| v.0.u128()).unwrap_or(f.flow_asset.amount.u128());
                    let end_e = f.asset_history.range(..=ep).next_back().map(|(_, v)| v.1).unwrap_or(f.end_epoch);
                    if end_e > ep {
                        bound = bound + w(funded_e / (end_e - ep) as u128);
                    }
                }
                if w(took) > bound {
                    acc.violation("C13", "W4/claim-exceeds-emissions-of-covered-epochs", detail(wd, json!({"flow": f.flow_id, "took": took.to_string(), "max_emission_of_covered_epochs": bound.to_string(), "step": what})));
                }
                // a single epoch's payment is bounded by that epoch's emission: with one covered epoch the bound is exact
                let mut ems: Vec<(u64, u128)> = f.emitted_tokens.iter().map(|(k, v)| (*k, v.u128())).collect();
                ems.sort();
                let last_claimed = wd.claimed_in_epoch.get(&ui).copied();
                if let Some(lc) = last_claimed {
                    if lc + 1 == e {
                        // The contract's cumulative emitted_tokens map is filled in claim order and is not a
                        // reliable per-epoch record (an epoch's entry is never overwritten), so the bound used
                        // is the largest emission the epoch can have: funded(e) / (end(e) - e).
                        let funded_e = f.asset_history.range(..=e).next_back().map(|(_, v)| v.0.u128()).unwrap_or(f.flow_asset.amount.u128());
                        let end_e = f.asset_history.range(..=e).next_back().map(|(_, v)| v.1).unwrap_or(f.end_epoch);
                        let _ = &ems;
                        let emission = if end_e > e { funded_e / (end_e - e) as u128 } else { 0 };
                        acc.count("check.W4.single-epoch");
                        if took > emission {
                            acc.violation("C13", "W4/single-epoch-claim-exceeds-epoch-emission", detail(wd, json!({"flow": f.flow_id, "took": took.to_string(), "emission": emission.to_string(), "step": what})));
                        }
                    }
                }
            }
            wd.claimed_in_epoch.insert(ui, e);
            check_state(acc, wd, &what);
            true
        }
    }
}

fn gen_dur(r: &mut Rng) -> u64 {
    match r.below(8) {
        0 => MIN_DUR,
        1 => MAX_DUR,
        2 => 15_778_463,
        3 => 15_778_462 + r.range(0, 2),
        4 => *r.pick(&[MIN_DUR - 1, MAX_DUR + 1]),
        5 => 259_200,
        _ => r.range(MIN_DUR, MAX_DUR),
    }
}

pub fn run_history(acc: &mut Acc, r: &mut Rng, steps: u64, variant: u64) {
    let mut wd = build_inc(r, variant);
    let durs: Vec<u64> = (0..3).map(|_| gen_dur(r)).collect();
    let mut class = vec![variant % 8];
    let big = r.chance(1, 4);
    // one history in six starts with a scripted interleaving that random steps rarely produce: an address without a
    // position claims, a flow is opened later in that same epoch (next to an older flow of the same asset), the same
    // address claims again one epoch later before any staker does, and a staker who has not claimed since before the
    // flow existed collects many epochs in one call. The usual monitors judge every step.
    if r.chance(1, 6) {
        acc.count("prelude.claim-then-open-flow-in-one-epoch");
        let asset = r.pick(&wd.rewards).clone();
        let extra = if asset.id() == wd.fee_asset.id() { wd.fee_amount } else { 0 };
        let next_epochs = |wd: &mut IncWorld, k: u64| {
            // one epoch at a time, each with its global-weight snapshot (epochs without one pay nothing)
            for _ in 0..k {
                advance(&mut wd.app, 10, DAY_NS);
                let owner = wd.core.owner.clone();
                catch_up_epochs(&mut wd.app, &wd.core, &owner);
                let inc = wd.incentive.clone();
                let _ = exec(&mut wd.app, &owner, &inc, &im::ExecuteMsg::TakeGlobalWeightSnapshot {}, &[]);
            }
            let e = wd.epoch();
            wd.log(format!("epoch -> {e} (a snapshot in every epoch)"));
        };
        let e = wd.epoch();
        op_open_flow(acc, &mut wd, 0, &asset, 50_000 + extra, Some(e), Some(e + 40), 0);
        op_position(acc, &mut wd, 1, false, r.range128(1_000, 1_000_000), durs[0].clamp(MIN_DUR, MAX_DUR), None, 0);
        op_position(acc, &mut wd, 2, false, r.range128(1_000, 1_000_000), durs[0].clamp(MIN_DUR, MAX_DUR), None, 0);
        next_epochs(&mut wd, 1);
        op_claim(acc, &mut wd, 1);
        next_epochs(&mut wd, r.range(1, 3));
        op_claim(acc, &mut wd, 3);
        let e = wd.epoch();
        op_open_flow(acc, &mut wd, 2, &asset, 10_000 + extra, None, Some(e + r.range(3, 12)), 0);
        next_epochs(&mut wd, 1);
        let c3 = op_claim(acc, &mut wd, 3);
        if std::env::var("VERIF_DEBUG_PRELUDE").is_ok() {
            eprintln!("U second claim ok: {c3}; emitted: {:?}", wd.flows().iter().map(|f| (f.flow_id, f.emitted_tokens.clone())).collect::<Vec<_>>());
        }
        next_epochs(&mut wd, r.range(8, 20));
        let c1 = op_claim(acc, &mut wd, 1);
        let c2 = op_claim(acc, &mut wd, 2);
        if std::env::var("VERIF_DEBUG_PRELUDE").is_ok() {
            let inc = wd.incentive.clone();
            let u1 = wd.users[1].clone();
            let res = exec(&mut wd.app, &u1, &inc, &im::ExecuteMsg::Claim {}, &[]);
            eprintln!("claims ok: {c1} {c2}; again: {:?}", res.map(|_| ()).map_err(|e| e.lines().last().unwrap_or("").to_string()));
            eprintln!("PRELUDE {:#?} flows={:?}", wd.tail(40), wd.flows().iter().map(|f| (f.flow_id, f.flow_asset.amount.u128(), f.claimed_amount.u128(), f.start_epoch, f.end_epoch)).collect::<Vec<_>>());
        }
    }
    for _step in 0..steps {
        let ui = r.idx(4);
        let usr = wd.users[ui].clone();
        let op = r.below(100);
        if op < 14 {
            let amount = if big { r.amount(1u128 << 100) } else { r.range128(1, 1_000_000_000) };
            let dur = if r.chance(3, 4) { *r.pick(&durs) } else { gen_dur(r) };
            let receiver = if r.chance(1, 4) { Some(r.idx(4)) } else { None };
            let fault = if r.chance(1, 5) { r.range(1, 3) as u8 } else { 0 };
            op_position(acc, &mut wd, ui, false, amount, dur, receiver, fault);
            class.push(1);
        } else if op < 28 {
            let (open, _) = wd.positions(&usr);
            let dur = if !open.is_empty() && r.chance(4, 5) { open[r.idx(open.len())].0 } else { *r.pick(&durs) };
            let amount = if big { r.amount(1u128 << 90) } else { r.range128(1, 100_000_000) };
            let receiver = if r.chance(1, 5) { Some(r.idx(4)) } else { None };
            let fault = if r.chance(1, 6) { r.range(1, 3) as u8 } else { 0 };
            op_position(acc, &mut wd, ui, true, amount, dur, receiver, fault);
            class.push(2);
        } else if op < 38 {
            let (open, _) = wd.positions(&usr);
            if !open.is_empty() {
                // closing requires no pending rewards
                if r.chance(3, 4) {
                    if let Ok(q) = wd.rewards(&usr) {
                        if !q.is_empty() {
                            op_claim(acc, &mut wd, ui);
                        }
                    }
                }
                let dur = open[r.idx(open.len())].0;
                op_close(acc, &mut wd, ui, dur);
            }
            class.push(3);
        } else if op < 46 {
            op_withdraw(acc, &mut wd, ui);
            class.push(4);
        } else if op < 52 {
            if wd.pair.is_some() {
                let dur = *r.pick(&durs);
                let fault = if r.chance(1, 3) { r.range(1, 3) as u8 } else { 0 };
                // one helper deposit in eight names an unbonding duration the incentive contract refuses: the liquidity
                // has been provided by then, so the whole transaction has to revert (nothing may stay with the helper)
                let dur = if r.chance(1, 8) { acc.count("helper.deposit.with-refused-duration"); *r.pick(&[MIN_DUR - 1, MAX_DUR + 1, 0]) } else { dur.clamp(MIN_DUR, MAX_DUR) };
                op_helper_deposit(acc, &mut wd, ui, r.range128(1_000, 1_000_000_000), dur, fault);
            }
            class.push(5);
        } else if op < 62 {
            let asset = r.pick(&wd.rewards).clone();
            let amount = match r.below(6) {
                0 => *r.pick(&[999u128, 1000, 1001, 2000]),
                // 18-decimal sized rewards: per-epoch emissions above 1e18, where any rounding difference between
                // the share used by the rewards query and the one used by claim becomes visible
                1 => r.range128(1_000_000_000_000_000_000, 100_000_000_000_000_000_000_000_000),
                _ => r.range128(1_000, 10_000_000_000),
            } + if asset.id() == wd.fee_asset.id() { wd.fee_amount } else { 0 };
            let e = wd.epoch();
            let start = match r.below(4) {
                0 => None,
                1 => Some(e + r.range(0, 3)),
                2 => Some(e + 15),
                _ => Some(e),
            };
            let end = match r.below(5) {
                0 => None,
                1 => Some(e + r.range(1, 6)),
                2 => Some(e.saturating_sub(1)),
                // long flows: beyond the 180-epoch expansion limit, so that a later expansion resets the flow
                3 => Some(e + *r.pick(&[179u64, 180, 181, 182, 250, 400])),
                _ => Some(e + r.range(2, 30)),
            };
            let pay = if r.chance(1, 3) { r.range(1, 4) as u8 } else { 0 };
            op_open_flow(acc, &mut wd, ui, &asset, amount, start, end, pay);
            class.push(6);
        } else if op < 70 {
            let flows = wd.flows();
            if !flows.is_empty() {
                let f = flows[r.idx(flows.len())].clone();
                let e = wd.epoch();
                let end = match r.below(4) {
                    0 => None,
                    1 => Some(e + r.range(1, 40)),
                    2 => Some(f.start_epoch + *r.pick(&[179u64, 180, 181, 200, 365])),
                    _ => Some(crate::mon::inc::flow_end(&f) + r.range(0, 20)),
                };
                let pay = if r.chance(1, 5) { r.range(2, 4) as u8 } else { 0 };
                op_expand_flow(acc, &mut wd, ui, &f, r.range128(1, 5_000_000_000), end, pay);
            }
            class.push(7);
        } else if op < 76 {
            let flows = wd.flows();
            if !flows.is_empty() {
                let f = flows[r.idx(flows.len())].clone();
                let creator_idx = wd.users.iter().position(|u| *u == f.flow_creator);
                let (who, role) = match r.below(4) {
                    0 => (wd.core.owner.clone(), "factory-owner"),
                    1 => {
                        let mut s = r.idx(4);
                        if Some(s) == creator_idx {
                            s = (s + 1) % 4;
                        }
                        (wd.users[s].clone(), "stranger")
                    }
                    _ => (f.flow_creator.clone(), "creator"),
                };
                op_close_flow(acc, &mut wd, &who, role, &f);
            }
            class.push(8);
        } else if op < 88 {
            op_claim(acc, &mut wd, ui);
            if r.chance(1, 3) {
                // immediately claim again in the same epoch
                op_claim(acc, &mut wd, ui);
            }
            class.push(9);
        } else if op < 93 {
            let inc = wd.incentive.clone();
            wd.log(format!("snapshot by user{ui}"));
            let res = exec(&mut wd.app, &usr, &inc, &im::ExecuteMsg::TakeGlobalWeightSnapshot {}, &[]);
            acc.count(if res.is_ok() { "snapshot.ok" } else { "snapshot.rejected" });
            check_shares(acc, &wd, "after snapshot");
            class.push(10);
        } else {
            // next epoch; the permissionless snapshot is taken at a random point of the epoch (see op above) or right away.
            // Now and then many epochs pass at once, so that claims cover dozens of unclaimed epochs (up to the 100-epoch cap)
            let k = if r.chance(1, 6) { *r.pick(&[20u64, 49, 51, 70, 99, 100, 101]) } else { 1 };
            if k > 1 {
                acc.count("epoch.fast-forward");
                wd.log(format!("fast-forward {k} epochs"));
            }
            advance(&mut wd.app, 10, k * DAY_NS);
            let owner = wd.core.owner.clone();
            catch_up_epochs(&mut wd.app, &wd.core, &owner);
            wd.log(format!("epoch -> {}", wd.epoch()));
            acc.count("epoch.advanced");
            if r.chance(1, 2) {
                let inc = wd.incentive.clone();
                let _ = exec(&mut wd.app, &owner, &inc, &im::ExecuteMsg::TakeGlobalWeightSnapshot {}, &[]);
                check_shares(acc, &wd, "snapshot at epoch start");
            }
            class.push(11);
        }
        if r.chance(1, 4) {
            check_shares(acc, &wd, "periodic");
        }
        acc.evals += 1;
        if class.len() > 5 {
            acc.class_only(&class);
            class.truncate(1);
        }
    }
    for (k, v) in crate::trap::traps_take() {
        acc.add(&format!("trap-site: {k}"), v);
    }
    acc.sample(|| json!({"variant": variant, "history_tail": wd.tail(12)}));
}

pub fn flow_end(f: &im::Flow) -> u64 {
    f.asset_history.values().next_back().map(|(_, e)| *e).unwrap_or(f.end_epoch)
}

pub fn run_inc_histories(ctx: &Ctx, shard: u64, acc: &mut Acc, n_hist: u64, steps: u64, prop: &str) {
    let ph = hash_str("inc-histories");
    for h in 0..ctx.scaled(n_hist) {
        let hid = 1_500_000_000 + h;
        if let Some(rp) = &ctx.replay {
            if rp.history != hid {
                continue;
            }
        }
        acc.history = hid;
        let mut r = Rng::from_parts(&[ctx.seed, ph, hash_str(prop), shard, h]);
        run_history(acc, &mut r, steps, shard + 3 * h);
    }
}
