//! C20 — epoch clocks (epoch manager with 0..3 hooks, and the fee distributor) only move forward,
//! one epoch at a time, never early.
use crate::adversary::*;
use crate::rng::{hash_str, Rng};
use crate::rt::{run_shards, Acc, CheckMeta, Ctx};
use crate::world::*;
use cosmwasm_std::{Addr, Empty, Timestamp, Uint64};
use serde_json::{json, Value};
use white_whale_std::epoch_manager::epoch_manager as em;
use white_whale_std::fee_distributor as fd;

fn schedule_step(r: &mut Rng, now: u64, start: u64, duration: u64, genesis: u64) -> u64 {
    // returns the new block time (>= now)
    let boundary = start.saturating_add(duration);
    let cand = match r.below(12) {
        0 => now,
        1 => now + 1,
        2 => boundary.saturating_sub(1),
        3 => boundary,
        4 => boundary + 1,
        5 => boundary + duration / 2,
        6 => boundary + 3 * duration + duration / 2,
        7 => genesis.saturating_sub(1),
        8 => genesis,
        9 => now + r.range(1, duration),
        10 => boundary.saturating_sub(r.range(1, 1_000_000_000)),
        _ => boundary + r.range(0, 1_000_000_000),
    };
    cand.max(now)
}

fn detail(ops: &[String], extra: Value) -> Value {
    let k = ops.len().saturating_sub(20);
    json!({"last_ops": ops[k..].to_vec(), "extra": extra})
}

fn manager_history(acc: &mut Acc, r: &mut Rng, steps: u64) {
    let owner = Addr::unchecked("owner");
    let users = [Addr::unchecked("user0"), Addr::unchecked("user1"), Addr::unchecked("attacker")];
    let mut app = new_app(vec![]);
    let codes = store_all(&mut app);
    let hcode = app.store_code(hookrx_contract());
    let duration = *r.pick(&[DAY_NS, DAY_NS + 1, 3 * DAY_NS, 7 * DAY_NS]);
    let now0 = app.block_info().time.nanos();
    let genesis = now0 + *r.pick(&[0u64, 1, 1000, DAY_NS / 2, 2 * DAY_NS]);
    let id0 = *r.pick(&[0u64, 1, 9, 10, 255]);
    let mgr = inst(
        &mut app,
        codes.epoch_manager,
        &owner,
        &em::InstantiateMsg { start_epoch: em::EpochV2 { id: id0, start_time: Timestamp::from_nanos(genesis) }, epoch_config: em::EpochConfig { duration: Uint64::new(duration), genesis_epoch: Uint64::new(genesis) } },
        &[],
        "epoch_manager",
        None,
    )
    .unwrap();
    let n_hooks = r.range(0, 3) as usize;
    // a pool of three recording hook contracts; the first n_hooks are registered from the start, the owner adds and
    // removes the others (and these) in the middle of two thirds of the histories
    let mut hooks = vec![];
    let mut registered = [false; 3];
    let mut failing = [false; 3];
    let mut expected: Vec<Vec<(u64, u64)>> = vec![vec![], vec![], vec![]];
    for i in 0..3 {
        let h = inst(&mut app, hcode, &owner, &Empty {}, &[], &format!("hook{i}"), None).unwrap();
        if i < n_hooks {
            exec(&mut app, &owner, &mgr, &em::ExecuteMsg::AddHook { contract_addr: h.to_string() }, &[]).unwrap();
            registered[i] = true;
        }
        hooks.push(h);
    }
    let churn_hooks = r.chance(2, 3);
    let inject_faults = r.chance(1, 2);
    // model
    let (mut mid, mut mstart) = (id0, genesis);
    let mut created: Vec<(u64, u64)> = vec![];
    let mut ops: Vec<String> = vec![];
    let mut duration = duration;
    let mut duration_changed = false;
    let change_durations = r.chance(1, 3);
    for _ in 0..steps {
        // in a third of the histories the owner changes the epoch duration now and then: the next epoch starts one
        // (new) duration after the current one, whatever genesis + id * duration would say
        if change_durations && r.chance(1, 12) {
            let nd = *r.pick(&[DAY_NS, DAY_NS + 1, DAY_NS / 2, 3 * DAY_NS, 7 * DAY_NS]);
            if exec(&mut app, &owner, &mgr, &em::ExecuteMsg::UpdateConfig { owner: None, epoch_config: Some(em::EpochConfig { duration: Uint64::new(nd), genesis_epoch: Uint64::new(genesis) }) }, &[]).is_ok() {
                ops.push(format!("owner sets the epoch duration {duration} -> {nd}"));
                if nd != duration {
                    duration_changed = true;
                    acc.count("manager.duration-changed");
                }
                duration = nd;
            }
        }
        if churn_hooks && r.chance(1, 8) {
            let i = r.below(3) as usize;
            let add = r.chance(1, 2);
            let msg = if add { em::ExecuteMsg::AddHook { contract_addr: hooks[i].to_string() } } else { em::ExecuteMsg::RemoveHook { contract_addr: hooks[i].to_string() } };
            let res = exec(&mut app, &owner, &mgr, &msg, &[]);
            ops.push(format!("owner {} hook{i} (registered before: {}) -> {}", if add { "adds" } else { "removes" }, registered[i], if res.is_ok() { "ok" } else { "rejected" }));
            if res.is_ok() {
                acc.count(if add { "manager.hook.added" } else { "manager.hook.removed" });
                if add && registered[i] {
                    acc.count("manager.hook.added-twice");
                }
                registered[i] = add;
            }
        }
        let fi = r.below(3) as usize;
        if inject_faults && (if failing[fi] { r.chance(1, 2) } else { r.chance(1, 14) }) {
            let i = fi;
            failing[i] = !failing[i];
            exec(&mut app, &users[0], &hooks[i], &HookRxExec::SetFail { fail: failing[i] }, &[]).unwrap();
            ops.push(format!("hook{i} {} answering with an error", if failing[i] { "starts" } else { "stops" }));
        }
        let now = app.block_info().time.nanos();
        let t = schedule_step(r, now, mstart, duration, genesis);
        if t > now {
            advance(&mut app, 1, t - now);
        }
        let attempts = r.range(1, 4);
        for _ in 0..attempts {
            let now = app.block_info().time.nanos();
            let who = r.pick(&users).clone();
            let due = now >= mstart && now - mstart >= duration;
            // a registered hook that answers with an error aborts the whole creation (nobody is notified, no epoch)
            let hook_fault = (0..3).any(|i| registered[i] && failing[i]);
            let expect_ok = due && !hook_fault;
            let n_hooks = registered.iter().filter(|x| **x).count();
            let before = snap(&app);
            let what = format!("create_epoch @{now} (model: id {mid}, start {mstart}, duration {duration}, registered hooks {registered:?}, failing {failing:?}, expect {})", if expect_ok { "accept" } else { "reject" });
            ops.push(what.clone());
            // one attempt in six is made by one of the hook contracts itself (registered or not), poked by a user
            let via_hook = if r.chance(1, 6) { Some(r.below(3) as usize) } else { None };
            let res = match via_hook {
                Some(i) => {
                    ops.push(format!("  (sent by the hook contract hook{i}, registered: {})", registered[i]));
                    if registered[i] {
                        acc.count("manager.create.sent-by-a-registered-hook");
                    }
                    exec(&mut app, &who, &hooks[i], &HookRxExec::Poke { manager: mgr.to_string() }, &[])
                }
                None => exec(&mut app, &who, &mgr, &em::ExecuteMsg::CreateEpoch {}, &[]),
            };
            let klass = if now < genesis { 0 } else if now < mstart + duration { 1 } else if now == mstart + duration { 2 } else if now - mstart < 2 * duration { 3 } else { 4 };
            acc.case(&[1, n_hooks as u64, klass, res.is_ok() as u64, (duration / DAY_NS)]);
            acc.count("check.T1.manager");
            match res {
                Ok(_) => {
                    acc.count("manager.create.ok");
                    if !due {
                        let early = if now < genesis { "before-genesis" } else { "before-duration-elapsed" };
                        acc.violation("C20", &format!("T1/manager/early-epoch-accepted/{early}"), detail(&ops, json!({"now": now, "start": mstart, "duration": duration})));
                    } else if hook_fault {
                        acc.violation("C20", "T3/epoch-created-although-a-registered-hook-failed", detail(&ops, json!({"registered": format!("{registered:?}"), "failing": format!("{failing:?}")})));
                    }
                    if klass == 4 {
                        acc.count("manager.create.ok.several-durations-late");
                    }
                    mid += 1;
                    mstart += duration;
                    created.push((mid, mstart));
                    for i in 0..3 {
                        if registered[i] && !(hook_fault && failing[i]) {
                            expected[i].push((mid, mstart));
                        }
                    }
                    let cur: em::EpochResponse = query(&app, &mgr, &em::QueryMsg::CurrentEpoch {}).unwrap();
                    if cur.epoch.id != mid || cur.epoch.start_time.nanos() != mstart {
                        acc.violation("C20", "T2/manager/new-epoch!=previous+1,start+duration", detail(&ops, json!({"contract": format!("{:?}", cur.epoch), "model_id": mid, "model_start": mstart})));
                        mid = cur.epoch.id;
                        mstart = cur.epoch.start_time.nanos();
                    }
                    // hooks: exactly one notification per created epoch, carrying it
                    acc.count("check.T3.hooks");
                    for (hi, h) in hooks.iter().enumerate() {
                        let seen: Vec<HookRecord> = query(&app, h, &Empty {}).unwrap();
                        let got: Vec<(u64, u64)> = seen.iter().map(|x| (x.epoch_id, x.start_time_ns)).collect();
                        if got != expected[hi] {
                            acc.violation("C20", "T3/hook-notifications!=created-epochs", detail(&ops, json!({"hook": hi, "seen": format!("{got:?}"), "epochs created while registered": format!("{:?}", expected[hi]), "created": format!("{created:?}")})));
                        }
                        if !registered[hi] && !expected[hi].is_empty() {
                            acc.count("manager.hook.removed-hook-stays-silent");
                        }
                    }
                }
                Err(_) => {
                    acc.count("manager.create.rejected");
                    if expect_ok {
                        acc.violation("C20", "T1/manager/due-epoch-rejected", detail(&ops, json!({"now": now, "start": mstart, "duration": duration})));
                    }
                    if due && hook_fault {
                        acc.count("manager.create.rejected.failing-hook");
                    }
                    if now < genesis {
                        acc.count("manager.rejected.before-genesis");
                    }
                    acc.count("check.U1");
                    if !same_state(&before, &snap(&app)) {
                        acc.violation("C20", "U1/rejected-attempt-changed-state", detail(&ops, json!({"step": what})));
                    }
                }
            }
            acc.count("check.T2.query");
            let cur: em::EpochResponse = query(&app, &mgr, &em::QueryMsg::CurrentEpoch {}).unwrap();
            if cur.epoch.id != mid || cur.epoch.start_time.nanos() != mstart {
                acc.violation("C20", "T2/manager/current-epoch!=model", detail(&ops, json!({"contract": format!("{:?}", cur.epoch), "model_id": mid, "model_start": mstart})));
            }
        }
    }
    // ids and start times strictly increasing and gap-free
    for wdw in created.windows(2) {
        if wdw[1].0 != wdw[0].0 + 1 || wdw[1].1 <= wdw[0].1 || (!duration_changed && wdw[1].1 != wdw[0].1 + duration) {
            acc.violation("C20", "T2/manager/ids-or-start-times-not-gap-free", detail(&ops, json!({"created": format!("{created:?}")})));
        }
    }
    // the Epoch{id} query agrees with what was created (only judged with a constant duration: the query
    // derives past epochs from the current one and the current duration)
    if !duration_changed {
        for (id, st) in created.iter().rev().take(12) {
            acc.count("check.T2.query.past-epoch");
            let e: Result<em::EpochResponse, String> = query(&app, &mgr, &em::QueryMsg::Epoch { id: *id });
            match e {
                Ok(e) if e.epoch.id == *id && e.epoch.start_time.nanos() == *st => {}
                other => acc.violation("C20", "T2/manager/epoch-query!=created-epoch", detail(&ops, json!({"id": id, "created_start": st, "query": format!("{other:?}")}))),
            }
        }
    }
    let k = ops.len().saturating_sub(6);
    // the notification lists are also judged at the end (a rejected attempt must not have notified anybody)
    for (hi, h) in hooks.iter().enumerate() {
        acc.count("check.T3.hooks.final");
        let seen: Vec<HookRecord> = query(&app, h, &Empty {}).unwrap();
        let got: Vec<(u64, u64)> = seen.iter().map(|x| (x.epoch_id, x.start_time_ns)).collect();
        if got != expected[hi] {
            acc.violation("C20", "T3/hook-notifications!=created-epochs", detail(&ops, json!({"hook": hi, "seen": format!("{got:?}"), "epochs created while registered": format!("{:?}", expected[hi])})));
        }
    }
    acc.sample(|| json!({"clock": "epoch-manager", "hooks": n_hooks, "duration": duration, "tail": ops[k..].to_vec()}));
}

fn distributor_history(acc: &mut Acc, r: &mut Rng, steps: u64) {
    let owner = Addr::unchecked("owner");
    let users = [Addr::unchecked("user0"), Addr::unchecked("user1"), Addr::unchecked("attacker")];
    let mut app = new_app(vec![]);
    let duration = *r.pick(&[DAY_NS, DAY_NS + 1, 2 * DAY_NS, 7 * DAY_NS]);
    let now0 = app.block_info().time.nanos();
    let genesis = now0 + *r.pick(&[0u64, 1, 1000, DAY_NS / 2, 2 * DAY_NS]);
    let core = deploy_core(&mut app, &owner, &CoreParams { epoch_duration: duration, genesis, grace_period: r.range(1, 4), ..Default::default() });
    let (mut mid, mut mstart) = (0u64, 0u64);
    let mut created: Vec<(u64, u64)> = vec![];
    let mut ops: Vec<String> = vec![];
    let mut duration = duration;
    let change_durations = r.chance(1, 3);
    for _ in 0..steps {
        if change_durations && mid >= 1 && r.chance(1, 12) {
            let nd = *r.pick(&[DAY_NS, DAY_NS + 1, 2 * DAY_NS, 3 * DAY_NS, 7 * DAY_NS]);
            if exec(&mut app, &owner, &core.distributor, &fd::ExecuteMsg::UpdateConfig { owner: None, bonding_contract_addr: None, fee_collector_addr: None, grace_period: None, distribution_asset: None, epoch_config: Some(white_whale_std::epoch_manager::epoch_manager::EpochConfig { duration: Uint64::new(nd), genesis_epoch: Uint64::new(genesis) }) }, &[]).is_ok() {
                ops.push(format!("owner sets the epoch duration {duration} -> {nd}"));
                if nd != duration {
                    acc.count("distributor.duration-changed");
                }
                duration = nd;
            }
        }
        let now = app.block_info().time.nanos();
        let ref_start = if mid == 0 { genesis.saturating_sub(duration) } else { mstart };
        let t = schedule_step(r, now, ref_start, duration, genesis);
        if t > now {
            advance(&mut app, 1, t - now);
        }
        for _ in 0..r.range(1, 4) {
            let now = app.block_info().time.nanos();
            let who = r.pick(&users).clone();
            let expect_ok = if mid == 0 { now >= genesis } else { now >= mstart && now - mstart >= duration };
            let before = snap(&app);
            let what = format!("new_epoch @{now} (model: id {mid}, start {mstart}, duration {duration}, genesis {genesis}, expect {})", if expect_ok { "accept" } else { "reject" });
            ops.push(what.clone());
            let res = exec(&mut app, &who, &core.distributor, &fd::ExecuteMsg::NewEpoch {}, &[]);
            let klass = if now < genesis { 0 } else if mid == 0 { 5 } else if now < mstart + duration { 1 } else if now == mstart + duration { 2 } else if now - mstart < 2 * duration { 3 } else { 4 };
            acc.case(&[2, klass, res.is_ok() as u64, duration / DAY_NS, (mid == 0) as u64]);
            acc.count("check.T1.distributor");
            match res {
                Ok(_) => {
                    acc.count("distributor.create.ok");
                    if !expect_ok {
                        let early = if now < genesis { "before-genesis" } else { "before-duration-elapsed" };
                        acc.violation("C20", &format!("T1/distributor/early-epoch-accepted/{early}"), detail(&ops, json!({"now": now, "start": mstart, "duration": duration, "genesis": genesis})));
                    }
                    if klass == 4 {
                        acc.count("distributor.create.ok.several-durations-late");
                    }
                    if mid == 0 {
                        mid = 1;
                        mstart = genesis;
                    } else {
                        mid += 1;
                        mstart += duration;
                    }
                    created.push((mid, mstart));
                }
                Err(_) => {
                    acc.count("distributor.create.rejected");
                    if expect_ok {
                        acc.violation("C20", "T1/distributor/due-epoch-rejected", detail(&ops, json!({"now": now, "start": mstart, "duration": duration, "genesis": genesis})));
                    }
                    if now < genesis {
                        acc.count("distributor.rejected.before-genesis");
                    }
                    acc.count("check.U1");
                    if !same_state(&before, &snap(&app)) {
                        acc.violation("C20", "U1/rejected-attempt-changed-state", detail(&ops, json!({"step": what})));
                    }
                }
            }
            acc.count("check.T2.query");
            let cur: fd::EpochResponse = query(&app, &core.distributor, &fd::QueryMsg::CurrentEpoch {}).unwrap();
            if cur.epoch.id.u64() != mid || cur.epoch.start_time.nanos() != mstart {
                acc.violation("C20", "T2/distributor/current-epoch!=model", detail(&ops, json!({"contract_id": cur.epoch.id.u64(), "contract_start": cur.epoch.start_time.nanos(), "model_id": mid, "model_start": mstart})));
                mid = cur.epoch.id.u64();
                mstart = cur.epoch.start_time.nanos();
            }
        }
    }
    // every stored epoch matches the model (ids gap-free, start times = genesis + (id-1)*duration)
    for (id, st) in &created {
        let e: fd::EpochResponse = query(&app, &core.distributor, &fd::QueryMsg::Epoch { id: Uint64::new(*id) }).unwrap();
        if e.epoch.id.u64() != *id || e.epoch.start_time.nanos() != *st {
            acc.violation("C20", "T2/distributor/stored-epoch!=model", detail(&ops, json!({"id": id, "model_start": st, "contract_start": e.epoch.start_time.nanos()})));
        }
    }
    let k = ops.len().saturating_sub(6);
    acc.sample(|| json!({"clock": "fee-distributor", "duration": duration, "tail": ops[k..].to_vec()}));
}

pub fn run(ctx: &Ctx) -> (CheckMeta, Acc) {
    let n = ctx.tier.pick(800, 80000);
    let steps = ctx.tier.pick(40, 80);
    let ph = hash_str("C20");
    let total = run_shards(ctx, 16, |sh, acc| {
        for h in 0..ctx.scaled(n) {
            if let Some(rp) = &ctx.replay {
                if rp.history != h {
                    continue;
                }
            }
            acc.history = h;
            let mut r = Rng::from_parts(&[ctx.seed, ph, sh, h]);
            if h % 2 == 0 {
                manager_history(acc, &mut r, steps);
            } else {
                distributor_history(acc, &mut r, steps);
            }
        }
    });
    let meta = CheckMeta {
        level: "exploration",
        rule: "block-time schedules built from {same time, +1ns, boundary-1ns, boundary, boundary+1ns, half a duration late, 3.5 durations late, genesis-1ns, genesis, random} with 1-4 creation attempts per block by arbitrary accounts (one in six relayed by one of the hook contracts itself), durations in {1d, 1d+1ns, 2d/3d, 7d}, genesis offsets in {0, 1ns, 1us, 12h, 2d}, epoch manager start ids {0,1,9,10,255} with 0-3 recording hook contracts registered at the start, hooks added and removed by the owner mid-history (a hook's expected notifications are the epochs created while it was registered) and hooks that answer with an injected error for a while (the creation must then be rejected as a whole and succeed with the same id once the fault is gone), and the real fee distributor (full system wiring). Reference clock model: accept iff now >= genesis and now - start >= duration; id += 1; start += duration (genesis first). After every attempt: accepted iff the model says so, CurrentEpoch == model, every hook's notification list == list of created epochs (exactly once, carrying the epoch), rejected attempts leave the state byte-identical; at the end ids and start times are gap-free. distinct = distinct (clock, hooks, time class, outcome, duration) tuples.".to_string(),
        assumptions: vec!["epoch manager: the first created epoch is start_epoch.id + 1 at genesis + duration (the instantiated start epoch is the genesis epoch)".into()],
        obligations: vec!["check.T1.manager".into(), "check.T1.distributor".into(), "check.T3.hooks".into(), "manager.create.ok".into(), "manager.create.rejected".into(), "distributor.create.ok".into(), "distributor.create.rejected".into(), "manager.create.ok.several-durations-late".into(), "distributor.create.ok.several-durations-late".into(), "distributor.rejected.before-genesis".into(), "check.U1".into(), "manager.hook.added".into(), "manager.hook.removed".into(), "manager.hook.removed-hook-stays-silent".into(), "manager.create.rejected.failing-hook".into(), "manager.create.sent-by-a-registered-hook".into()],
    };
    (meta, total)
}
