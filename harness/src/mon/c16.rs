//! C16 — only the owner (or the contract itself) can perform privileged operations.
//!
//! Matrix monitor over one world holding all 15 contracts. Every step picks one privileged message
//! (contract x variant x payload shape), and sends it — from the same snapshot — as every role:
//! current owner of record, every previous owner, the deployer, a user, an attacker, a relay
//! contract driven by the attacker, the target contract itself, its factory, and sibling system
//! contracts (cw-multi-test lets any address be the sender, so contract roles are exact).
//! A model of ownership (updated only by committed ownership transfers) says who is authorised.
//!   A1  a caller the model does not authorise must be rejected, and the chain state stays byte-identical
//!   A2  a caller the model authorises is never rejected with an authorisation error
//!       (in particular the new owner after a transfer)
use crate::adversary::{hookrx_contract, sibling_contract, SiblingExec};
use crate::mon::inc::{build_inc, op_open_flow, IncWorld};
use crate::rng::{hash_str, Rng};
use crate::rt::{run_shards, Acc, CheckMeta, Ctx};
use crate::wide::ONE18;
use crate::world::*;
use cosmwasm_std::{coin, to_json_binary, Addr, Binary, Coin, CosmosMsg, Empty, Timestamp, Uint128, Uint64, WasmMsg};
use cw_multi_test::Executor;
use serde_json::{json, Value};
use std::collections::BTreeMap;
use white_whale_std::epoch_manager::epoch_manager as em;
use white_whale_std::fee_collector as fc;
use white_whale_std::fee_distributor as fd;
use white_whale_std::pool_network::asset::{AssetInfo, PairType};
use white_whale_std::pool_network::factory as fm;
use white_whale_std::pool_network::frontend_helper as hm;
use white_whale_std::pool_network::incentive as im;
use white_whale_std::pool_network::incentive_factory as ifm;
use white_whale_std::pool_network::pair as pm;
use white_whale_std::pool_network::router as rm;
use white_whale_std::pool_network::trio as tm;
use white_whale_std::vault_network::vault as vm;
use white_whale_std::vault_network::vault_factory as vfm;
use white_whale_std::vault_network::vault_router as vrm;
use white_whale_std::whale_lair as lm;

struct W16 {
    inc: IncWorld,
    owner: Addr,
    sibling: Addr,
    sib_code: u64,
    emgr: Addr,
    hook: Addr,
    trio: TrioHandle,
    vaults: Vec<VaultHandle>,
    /// owner of record per contract key
    owners: BTreeMap<&'static str, Addr>,
    prev: BTreeMap<&'static str, Vec<Addr>>,
    router_admin: Option<Addr>,
    flow_creator: Addr,
    hist: Vec<String>,
}

struct Action {
    name: String,
    key: &'static str,
    target: Addr,
    msg: Binary,
    funds: Vec<Coin>,
    authorised: Vec<Addr>,
    /// everybody is let through (documented known finding: router without wasm admin)
    open_door: bool,
    transfer: Option<(&'static str, Addr)>,
    commit_ok: bool,
}

fn bin<T: serde::Serialize>(m: &T) -> Binary {
    to_json_binary(m).unwrap()
}

fn build(r: &mut Rng, variant: u64) -> W16 {
    // IncWorld variants 4..7 carry a real pair (uaaa / TKB), its LP, an incentive contract and the frontend helper
    let mut inc = build_inc(r, 4 + variant % 4);
    let owner = inc.core.owner.clone();
    let core = inc.core.clone();
    for d in ["uwhale", "ureward", "ux00", "ux01", "ux02", "ux03"] {
        add_native_decimals(&mut inc.app, &owner, &core.factory, d, 6);
    }
    let trio = create_trio(&mut inc.app, &owner, &core.factory, [AssetRef::Native("uaaa".into()), AssetRef::Native("ureward".into()), AssetRef::Native("uwhale".into())], trio_fee([ONE18 / 1000, ONE18 / 500, 0]), 100).expect("trio");
    let amt = 1_000_000_000u128;
    let mut funds = vec![coin(amt, "uaaa"), coin(amt, "ureward"), coin(amt, "uwhale")];
    funds.sort_by(|a, b| a.denom.cmp(&b.denom));
    exec(&mut inc.app, &owner, &trio.addr, &tm::ExecuteMsg::ProvideLiquidity { assets: [trio.assets[0].asset(amt), trio.assets[1].asset(amt), trio.assets[2].asset(amt)], slippage_tolerance: None, receiver: None }, &funds).expect("trio liquidity");
    let v0 = create_vault(&mut inc.app, &owner, &core.vault_factory, AssetRef::Native("uwhale".into()), vault_fee([ONE18 / 1000, ONE18 / 1000, 0])).expect("vault0");
    let v1 = create_vault(&mut inc.app, &owner, &core.vault_factory, AssetRef::Cw20(inc.tokens[0].clone()), vault_fee([ONE18 / 1000, ONE18 / 1000, 0])).expect("vault1");
    exec(&mut inc.app, &owner, &v0.addr, &vm::ExecuteMsg::Deposit { amount: Uint128::new(amt) }, &[coin(amt, "uwhale")]).expect("vault deposit");
    inc.tokens.push(trio.lp.clone());
    inc.tokens.push(v0.lp.clone());
    inc.tokens.push(v1.lp.clone());
    let sib_code = inc.app.store_code(sibling_contract());
    let hcode = inc.app.store_code(hookrx_contract());
    let sibling = inst(&mut inc.app, sib_code, &owner, &Empty {}, &[], "sibling", None).unwrap();
    let hook = inst(&mut inc.app, hcode, &owner, &Empty {}, &[], "hook", None).unwrap();
    let now = inc.app.block_info().time.nanos();
    let emgr = inst(
        &mut inc.app,
        core.codes.epoch_manager,
        &owner,
        &em::InstantiateMsg { start_epoch: em::EpochV2 { id: 0, start_time: Timestamp::from_nanos(now) }, epoch_config: em::EpochConfig { duration: Uint64::new(DAY_NS), genesis_epoch: Uint64::new(now) } },
        &[],
        "epoch_manager",
        None,
    )
    .unwrap();
    exec(&mut inc.app, &owner, &emgr, &em::ExecuteMsg::AddHook { contract_addr: hook.to_string() }, &[]).unwrap();
    // a route and a flow so that removal / closing have something to act on
    let pair = inc.pair.as_ref().unwrap();
    let route = rm::SwapRoute { offer_asset_info: pair.assets[0].info(), ask_asset_info: pair.assets[1].info(), swap_operations: vec![rm::SwapOperation::TerraSwap { offer_asset_info: pair.assets[0].info(), ask_asset_info: pair.assets[1].info() }] };
    // variant bit 2: router deployed without a wasm admin (as the repository's own integration tests do)
    let router_admin = if (variant / 4) % 4 == 3 {
        let r2 = inst(&mut inc.app, core.codes.router, &owner, &rm::InstantiateMsg { terraswap_factory: core.factory.to_string() }, &[], "router_no_admin", None).unwrap();
        inc.core.router = r2;
        None
    } else {
        Some(owner.clone())
    };
    let router = inc.core.router.clone();
    let _ = exec(&mut inc.app, &owner, &router, &rm::ExecuteMsg::AddSwapRoutes { swap_routes: vec![route] }, &[]);
    let mut dummy = Acc::new(0);
    // two flows carrying the same (non-unique) label "promo": the first by user0, a later one by the attacker; a
    // CloseFlow naming the label resolves to the first one, for which the attacker is nobody
    op_open_flow(&mut dummy, &mut inc, 0, &AssetRef::Native("ureward".into()), 1_000_000_000, None, None, 0);
    op_open_flow(&mut dummy, &mut inc, 3, &AssetRef::Native("ureward".into()), 1_000_000_005, None, None, 0);
    let flow_creator = inc.users[0].clone();
    let core = inc.core.clone();
    let pair_addr = inc.pair.as_ref().unwrap().addr.clone();
    let _ = pair_addr;
    let mut owners: BTreeMap<&'static str, Addr> = BTreeMap::new();
    for k in ["factory", "vfactory", "vrouter", "collector", "distributor", "lair", "ifactory", "helper", "emgr"] {
        owners.insert(k, owner.clone());
    }
    owners.insert("pair", core.factory.clone());
    owners.insert("trio", core.factory.clone());
    owners.insert("vault0", core.vault_factory.clone());
    owners.insert("vault1", core.vault_factory.clone());
    W16 { inc, owner, sibling, sib_code, emgr, hook, trio, vaults: vec![v0, v1], owners, prev: BTreeMap::new(), router_admin, flow_creator, hist: vec![format!("world variant={variant}")] }
}

fn new_owner_cand(w: &W16, r: &mut Rng) -> Addr {
    r.pick(&[w.inc.users[1].clone(), w.inc.users[2].clone(), Addr::unchecked("dao"), w.owner.clone()]).clone()
}

fn small_fees(r: &mut Rng) -> [u128; 3] {
    [r.range128(0, ONE18 / 100), r.range128(0, ONE18 / 100), 0]
}

/// the catalogue: one privileged message with a random payload shape
fn pick_action(w: &W16, r: &mut Rng) -> Action {
    let core = &w.inc.core;
    let pair = w.inc.pair.as_ref().unwrap();
    let o = |k: &'static str| -> Vec<Addr> { vec![w.owners[k].clone()] };
    let none: Vec<Addr> = vec![];
    let mk = |name: &str, key: &'static str, target: &Addr, msg: Binary, authorised: Vec<Addr>| Action { name: name.to_string(), key, target: target.clone(), msg, funds: vec![], authorised, open_door: false, transfer: None, commit_ok: false };
    let n = new_owner_cand(w, r);
    let which = r.below(54);
    match which {
        // ---------------- pool factory
        0 => {
            let shape = r.below(4);
            let (ow, fcol, tid) = match shape {
                0 => (Some(n.to_string()), None, None),
                1 => (None, Some(core.collector.to_string()), None),
                2 => (None, None, Some(core.codes.token)),
                _ => (None, None, None),
            };
            let mut a = mk(&format!("factory.UpdateConfig/{}", ["owner", "fee_collector", "token_code_id", "empty"][shape as usize]), "factory", &core.factory, bin(&fm::ExecuteMsg::UpdateConfig { owner: ow, fee_collector_addr: fcol, token_code_id: tid, pair_code_id: None, trio_code_id: None }), o("factory"));
            if shape == 0 {
                a.transfer = Some(("factory", n));
            }
            a
        }
        1 | 2 => {
            let shape = r.below(4);
            let child_is_factorys = w.owners["pair"] == core.factory;
            let msg = match shape {
                0 => fm::ExecuteMsg::UpdatePairConfig { pair_addr: pair.addr.to_string(), owner: None, fee_collector_addr: None, pool_fees: Some(pool_fee(small_fees(r))), feature_toggle: None },
                1 => fm::ExecuteMsg::UpdatePairConfig { pair_addr: pair.addr.to_string(), owner: None, fee_collector_addr: Some(core.collector.to_string()), pool_fees: None, feature_toggle: None },
                2 => fm::ExecuteMsg::UpdatePairConfig { pair_addr: pair.addr.to_string(), owner: None, fee_collector_addr: None, pool_fees: None, feature_toggle: Some(pm::FeatureToggle { withdrawals_enabled: true, deposits_enabled: true, swaps_enabled: r.chance(1, 2) }) },
                _ => fm::ExecuteMsg::UpdatePairConfig { pair_addr: pair.addr.to_string(), owner: Some(n.to_string()), fee_collector_addr: None, pool_fees: None, feature_toggle: None },
            };
            let mut a = mk(&format!("factory.UpdatePairConfig/{}", ["fees", "fee_collector", "toggle", "owner"][shape as usize]), "factory", &core.factory, bin(&msg), if child_is_factorys { o("factory") } else { none.clone() });
            if shape == 3 && child_is_factorys {
                a.transfer = Some(("pair", n));
            }
            a
        }
        3 => {
            let shape = r.below(3);
            let child_is_factorys = w.owners["trio"] == core.factory;
            let now = w.inc.app.block_info().height;
            let msg = match shape {
                0 => fm::ExecuteMsg::UpdateTrioConfig { trio_addr: w.trio.addr.to_string(), owner: None, fee_collector_addr: None, pool_fees: Some(trio_fee(small_fees(r))), feature_toggle: None, amp_factor: None },
                1 => fm::ExecuteMsg::UpdateTrioConfig { trio_addr: w.trio.addr.to_string(), owner: None, fee_collector_addr: None, pool_fees: None, feature_toggle: None, amp_factor: Some(tm::RampAmp { future_a: 200, future_block: now + 20_000 }) },
                // the ownership transfer sometimes travels together with a (valid) amp ramp and a fee update
                _ => fm::ExecuteMsg::UpdateTrioConfig { trio_addr: w.trio.addr.to_string(), owner: Some(n.to_string()), fee_collector_addr: None, pool_fees: if r.chance(1, 2) { Some(trio_fee(small_fees(r))) } else { None }, feature_toggle: None, amp_factor: if r.chance(1, 2) { Some(tm::RampAmp { future_a: 150 + now % 50, future_block: now + 20_000 }) } else { None } },
            };
            let mut a = mk(&format!("factory.UpdateTrioConfig/{}", ["fees", "ramp", "owner"][shape as usize]), "factory", &core.factory, bin(&msg), if child_is_factorys { o("factory") } else { none.clone() });
            if shape == 2 && child_is_factorys {
                a.transfer = Some(("trio", n));
            }
            a
        }
        4 => mk("factory.CreatePair", "factory", &core.factory, bin(&fm::ExecuteMsg::CreatePair { asset_infos: [AssetInfo::NativeToken { denom: "ux00".into() }, AssetInfo::NativeToken { denom: "ux01".into() }], pool_fees: pool_fee(small_fees(r)), pair_type: if r.chance(1, 2) { PairType::ConstantProduct } else { PairType::StableSwap { amp: 100 } }, token_factory_lp: false }), o("factory")),
        5 => mk("factory.CreateTrio", "factory", &core.factory, bin(&fm::ExecuteMsg::CreateTrio { asset_infos: [AssetInfo::NativeToken { denom: "ux00".into() }, AssetInfo::NativeToken { denom: "ux01".into() }, AssetInfo::NativeToken { denom: "ux02".into() }], pool_fees: trio_fee(small_fees(r)), amp_factor: 100, token_factory_lp: false }), o("factory")),
        6 => mk("factory.AddNativeTokenDecimals", "factory", &core.factory, bin(&fm::ExecuteMsg::AddNativeTokenDecimals { denom: "ux09".into(), decimals: 6 }), o("factory")),
        7 => mk("factory.MigratePair", "factory", &core.factory, bin(&fm::ExecuteMsg::MigratePair { contract: pair.addr.to_string(), code_id: Some(w.sib_code) }), o("factory")),
        8 => mk("factory.MigrateTrio", "factory", &core.factory, bin(&fm::ExecuteMsg::MigrateTrio { contract: w.trio.addr.to_string(), code_id: Some(w.sib_code) }), o("factory")),
        9 => mk("factory.RemovePair", "factory", &core.factory, bin(&fm::ExecuteMsg::RemovePair { asset_infos: [pair.assets[1].info(), pair.assets[0].info()] }), o("factory")),
        10 => mk("factory.RemoveTrio", "factory", &core.factory, bin(&fm::ExecuteMsg::RemoveTrio { asset_infos: [w.trio.assets[2].info(), w.trio.assets[0].info(), w.trio.assets[1].info()] }), o("factory")),
        // ---------------- pair / trio (direct)
        11 | 12 => {
            let shape = r.below(5);
            let msg = match shape {
                0 => pm::ExecuteMsg::UpdateConfig { owner: None, fee_collector_addr: None, pool_fees: Some(pool_fee(small_fees(r))), feature_toggle: None },
                1 => pm::ExecuteMsg::UpdateConfig { owner: None, fee_collector_addr: Some(w.inc.users[3].to_string()), pool_fees: None, feature_toggle: None },
                2 => pm::ExecuteMsg::UpdateConfig { owner: None, fee_collector_addr: None, pool_fees: None, feature_toggle: Some(pm::FeatureToggle { withdrawals_enabled: false, deposits_enabled: true, swaps_enabled: true }) },
                3 => pm::ExecuteMsg::UpdateConfig { owner: Some(n.to_string()), fee_collector_addr: None, pool_fees: if r.chance(1, 2) { Some(pool_fee(small_fees(r))) } else { None }, feature_toggle: if r.chance(1, 2) { Some(pm::FeatureToggle { withdrawals_enabled: true, deposits_enabled: true, swaps_enabled: true }) } else { None } },
                _ => pm::ExecuteMsg::UpdateConfig { owner: None, fee_collector_addr: None, pool_fees: None, feature_toggle: None },
            };
            let mut a = mk(&format!("pair.UpdateConfig/{}", ["fees", "fee_collector", "toggle", "owner", "empty"][shape as usize]), "pair", &pair.addr, bin(&msg), o("pair"));
            if shape == 3 {
                a.transfer = Some(("pair", n));
            }
            a
        }
        13 => {
            let shape = r.below(4);
            let msg = match shape {
                0 => tm::ExecuteMsg::UpdateConfig { owner: None, fee_collector_addr: None, pool_fees: Some(trio_fee(small_fees(r))), feature_toggle: None, amp_factor: None },
                1 => tm::ExecuteMsg::UpdateConfig { owner: None, fee_collector_addr: Some(w.inc.users[3].to_string()), pool_fees: None, feature_toggle: None, amp_factor: None },
                2 => tm::ExecuteMsg::UpdateConfig { owner: None, fee_collector_addr: None, pool_fees: None, feature_toggle: Some(tm::FeatureToggle { withdrawals_enabled: true, deposits_enabled: false, swaps_enabled: true }), amp_factor: None },
                _ => {
                    let h = w.inc.app.block_info().height;
                    tm::ExecuteMsg::UpdateConfig { owner: Some(n.to_string()), fee_collector_addr: None, pool_fees: if r.chance(1, 2) { Some(trio_fee(small_fees(r))) } else { None }, feature_toggle: None, amp_factor: if r.chance(1, 2) { Some(tm::RampAmp { future_a: 150 + h % 50, future_block: h + 20_000 }) } else { None } }
                }
            };
            let mut a = mk(&format!("trio.UpdateConfig/{}", ["fees", "fee_collector", "toggle", "owner"][shape as usize]), "trio", &w.trio.addr, bin(&msg), o("trio"));
            if shape == 3 {
                a.transfer = Some(("trio", n));
            }
            a
        }
        // ---------------- pool router
        14 | 15 => {
            let add = which == 14;
            let (x, y) = if r.chance(1, 2) { (0, 1) } else { (1, 0) };
            let route = rm::SwapRoute { offer_asset_info: pair.assets[x].info(), ask_asset_info: pair.assets[y].info(), swap_operations: vec![rm::SwapOperation::TerraSwap { offer_asset_info: pair.assets[x].info(), ask_asset_info: pair.assets[y].info() }] };
            let msg = if add { rm::ExecuteMsg::AddSwapRoutes { swap_routes: vec![route] } } else { rm::ExecuteMsg::RemoveSwapRoutes { swap_routes: vec![route] } };
            let mut a = mk(if add { "router.AddSwapRoutes" } else { "router.RemoveSwapRoutes" }, "router", &core.router, bin(&msg), w.router_admin.iter().cloned().collect());
            a.open_door = w.router_admin.is_none();
            a.commit_ok = add;
            a
        }
        16 => mk("router.ExecuteSwapOperation", "router", &core.router, bin(&rm::ExecuteMsg::ExecuteSwapOperation { operation: rm::SwapOperation::TerraSwap { offer_asset_info: pair.assets[0].info(), ask_asset_info: pair.assets[1].info() }, to: Some(w.inc.users[3].to_string()), max_spread: None }), vec![core.router.clone()]),
        17 => mk("router.AssertMinimumReceive", "router", &core.router, bin(&rm::ExecuteMsg::AssertMinimumReceive { asset_info: pair.assets[0].info(), prev_balance: Uint128::zero(), minimum_receive: Uint128::new(r.below(2) as u128), receiver: w.inc.users[0].to_string() }), vec![core.router.clone()]),
        // ---------------- vault factory
        18 => mk("vault_factory.CreateVault", "vfactory", &core.vault_factory, bin(&vfm::ExecuteMsg::CreateVault { asset_info: AssetInfo::NativeToken { denom: "uaaa".into() }, fees: vault_fee(small_fees(r)), token_factory_lp: false }), o("vfactory")),
        19 => mk("vault_factory.MigrateVaults", "vfactory", &core.vault_factory, bin(&vfm::ExecuteMsg::MigrateVaults { vault_addr: if r.chance(1, 2) { Some(w.vaults[0].addr.to_string()) } else { None }, vault_code_id: w.sib_code }), o("vfactory")),
        20 => mk("vault_factory.RemoveVault", "vfactory", &core.vault_factory, bin(&vfm::ExecuteMsg::RemoveVault { asset_info: w.vaults[r.idx(2)].asset.info() }), o("vfactory")),
        21 | 22 => {
            let v = r.idx(2);
            let key: &'static str = if v == 0 { "vault0" } else { "vault1" };
            let shape = r.below(3);
            let params = match shape {
                0 => vm::UpdateConfigParams { flash_loan_enabled: None, deposit_enabled: None, withdraw_enabled: None, new_owner: None, new_vault_fees: Some(vault_fee(small_fees(r))), new_fee_collector_addr: None },
                1 => vm::UpdateConfigParams { flash_loan_enabled: Some(r.chance(1, 2)), deposit_enabled: None, withdraw_enabled: None, new_owner: None, new_vault_fees: None, new_fee_collector_addr: Some(core.collector.to_string()) },
                _ => vm::UpdateConfigParams { flash_loan_enabled: None, deposit_enabled: None, withdraw_enabled: None, new_owner: Some(n.to_string()), new_vault_fees: None, new_fee_collector_addr: None },
            };
            let child_is_factorys = w.owners[key] == core.vault_factory;
            let mut a = mk(&format!("vault_factory.UpdateVaultConfig/{}", ["fees", "toggle+collector", "owner"][shape as usize]), "vfactory", &core.vault_factory, bin(&vfm::ExecuteMsg::UpdateVaultConfig { vault_addr: w.vaults[v].addr.to_string(), params }), if child_is_factorys { o("vfactory") } else { none.clone() });
            if shape == 2 && child_is_factorys {
                a.transfer = Some((key, n));
            }
            a
        }
        23 => {
            let shape = r.below(3);
            let (ow, fcol, vid) = match shape {
                0 => (Some(n.to_string()), None, None),
                1 => (None, Some(core.collector.to_string()), None),
                _ => (None, None, Some(core.codes.vault)),
            };
            let mut a = mk(&format!("vault_factory.UpdateConfig/{}", ["owner", "fee_collector", "vault_id"][shape as usize]), "vfactory", &core.vault_factory, bin(&vfm::ExecuteMsg::UpdateConfig { owner: ow, fee_collector_addr: fcol, vault_id: vid, token_id: None }), o("vfactory"));
            if shape == 0 {
                a.transfer = Some(("vfactory", n));
            }
            a
        }
        // ---------------- vault (direct)
        24 | 25 => {
            let v = r.idx(2);
            let key: &'static str = if v == 0 { "vault0" } else { "vault1" };
            let shape = r.below(4);
            let params = match shape {
                0 => vm::UpdateConfigParams { flash_loan_enabled: None, deposit_enabled: None, withdraw_enabled: None, new_owner: None, new_vault_fees: Some(vault_fee(small_fees(r))), new_fee_collector_addr: None },
                1 => vm::UpdateConfigParams { flash_loan_enabled: Some(false), deposit_enabled: Some(true), withdraw_enabled: None, new_owner: None, new_vault_fees: None, new_fee_collector_addr: None },
                2 => vm::UpdateConfigParams { flash_loan_enabled: None, deposit_enabled: None, withdraw_enabled: None, new_owner: Some(n.to_string()), new_vault_fees: None, new_fee_collector_addr: None },
                _ => vm::UpdateConfigParams { flash_loan_enabled: None, deposit_enabled: None, withdraw_enabled: None, new_owner: None, new_vault_fees: None, new_fee_collector_addr: Some(w.inc.users[3].to_string()) },
            };
            let mut a = mk(&format!("vault.UpdateConfig/{}", ["fees", "toggle", "owner", "fee_collector"][shape as usize]), key, &w.vaults[v].addr, bin(&vm::ExecuteMsg::UpdateConfig(params)), o(key));
            if shape == 2 {
                a.transfer = Some((key, n));
            }
            a
        }
        26 => {
            let v = r.idx(2);
            let bal = w.vaults[v].asset.balance(&w.inc.app, &w.vaults[v].addr);
            mk("vault.Callback.AfterTrade", if v == 0 { "vault0" } else { "vault1" }, &w.vaults[v].addr, bin(&vm::ExecuteMsg::Callback(vm::CallbackMsg::AfterTrade { old_balance: Uint128::new(bal), loan_amount: Uint128::zero() })), vec![w.vaults[v].addr.clone()])
        }
        // ---------------- vault router
        27 => {
            let shape = r.below(2);
            let mut a = mk(&format!("vault_router.UpdateConfig/{}", ["owner", "vault_factory"][shape as usize]), "vrouter", &core.vault_router, bin(&vrm::ExecuteMsg::UpdateConfig { owner: if shape == 0 { Some(n.to_string()) } else { None }, vault_factory_addr: if shape == 1 { Some(core.vault_factory.to_string()) } else { None } }), o("vrouter"));
            if shape == 0 {
                a.transfer = Some(("vrouter", n));
            }
            a
        }
        28 => {
            let v = r.idx(2);
            match r.below(3) {
                // the registered vault is named as source: only that vault may send it
                0 => mk(
                    "vault_router.NextLoan/registered-source",
                    "vrouter",
                    &core.vault_router,
                    bin(&vrm::ExecuteMsg::NextLoan { initiator: w.inc.users[3].clone(), source_vault: w.vaults[v].addr.to_string(), source_vault_asset_info: w.vaults[v].asset.info(), payload: vec![], to_loan: vec![], loaned_assets: vec![] }),
                    vec![w.vaults[v].addr.clone()],
                ),
                // the sender names itself as source vault for an asset that has no vault at all: nobody is authorised
                1 => {
                    let who = r.pick(&[w.inc.users[3].clone(), w.inc.users[0].clone(), w.sibling.clone(), pair.addr.clone(), core.vault_factory.clone()]).clone();
                    mk(
                        "vault_router.NextLoan/self-named-source-unregistered-asset",
                        "vrouter",
                        &core.vault_router,
                        bin(&vrm::ExecuteMsg::NextLoan { initiator: w.inc.users[3].clone(), source_vault: who.to_string(), source_vault_asset_info: AssetInfo::NativeToken { denom: "uaaa".into() }, payload: vec![], to_loan: vec![], loaned_assets: vec![] }),
                        vec![],
                    )
                }
                // the sender names itself as source vault for an asset whose registered vault is another contract
                _ => {
                    let who = r.pick(&[w.inc.users[3].clone(), w.sibling.clone(), w.vaults[1 - v].addr.clone()]).clone();
                    mk(
                        "vault_router.NextLoan/self-named-source-foreign-asset",
                        "vrouter",
                        &core.vault_router,
                        bin(&vrm::ExecuteMsg::NextLoan { initiator: w.inc.users[3].clone(), source_vault: who.to_string(), source_vault_asset_info: w.vaults[v].asset.info(), payload: vec![], to_loan: vec![], loaned_assets: vec![] }),
                        vec![],
                    )
                }
            }
        }
        29 => mk("vault_router.CompleteLoan", "vrouter", &core.vault_router, bin(&vrm::ExecuteMsg::CompleteLoan { initiator: w.inc.users[3].clone(), loaned_assets: vec![] }), vec![core.vault_router.clone()]),
        // ---------------- fee collector / distributor / lair
        30 => {
            let shape = r.below(4);
            let msg = match shape {
                0 => fc::ExecuteMsg::UpdateConfig { owner: Some(n.to_string()), pool_router: None, fee_distributor: None, pool_factory: None, vault_factory: None, take_rate: None, take_rate_dao_address: None, is_take_rate_active: None },
                1 => fc::ExecuteMsg::UpdateConfig { owner: None, pool_router: Some(core.router.to_string()), fee_distributor: Some(core.distributor.to_string()), pool_factory: None, vault_factory: None, take_rate: None, take_rate_dao_address: None, is_take_rate_active: None },
                2 => fc::ExecuteMsg::UpdateConfig { owner: None, pool_router: None, fee_distributor: None, pool_factory: None, vault_factory: None, take_rate: Some(dec(ONE18 / 10)), take_rate_dao_address: Some(w.inc.users[3].to_string()), is_take_rate_active: Some(true) },
                _ => fc::ExecuteMsg::UpdateConfig { owner: None, pool_router: None, fee_distributor: Some(w.inc.users[3].to_string()), pool_factory: None, vault_factory: None, take_rate: None, take_rate_dao_address: None, is_take_rate_active: None },
            };
            let mut a = mk(&format!("fee_collector.UpdateConfig/{}", ["owner", "router+distributor", "take_rate", "distributor:=attacker"][shape as usize]), "collector", &core.collector, bin(&msg), o("collector"));
            if shape == 0 {
                a.transfer = Some(("collector", n));
            }
            a
        }
        31 => {
            let ep: fd::EpochResponse = query(&w.inc.app, &core.distributor, &fd::QueryMsg::CurrentEpoch {}).unwrap();
            mk("fee_collector.ForwardFees", "collector", &core.collector, bin(&fc::ExecuteMsg::ForwardFees { epoch: ep.epoch, forward_fees_as: AssetInfo::NativeToken { denom: "uwhale".into() } }), vec![core.distributor.clone()])
        }
        32 => {
            let shape = r.below(3);
            let cur: fd::Config = query(&w.inc.app, &core.distributor, &fd::QueryMsg::Config {}).unwrap();
            let msg = match shape {
                0 => fd::ExecuteMsg::UpdateConfig { owner: Some(n.to_string()), bonding_contract_addr: None, fee_collector_addr: None, grace_period: None, distribution_asset: None, epoch_config: None },
                1 => fd::ExecuteMsg::UpdateConfig { owner: None, bonding_contract_addr: Some(core.lair.to_string()), fee_collector_addr: Some(core.collector.to_string()), grace_period: Some(Uint64::new((cur.grace_period.u64() + 1).min(30))), distribution_asset: None, epoch_config: None },
                _ => fd::ExecuteMsg::UpdateConfig { owner: None, bonding_contract_addr: None, fee_collector_addr: None, grace_period: None, distribution_asset: Some(AssetInfo::NativeToken { denom: "uaaa".into() }), epoch_config: None },
            };
            let mut a = mk(&format!("fee_distributor.UpdateConfig/{}", ["owner", "addresses+grace", "distribution_asset"][shape as usize]), "distributor", &core.distributor, bin(&msg), o("distributor"));
            if shape == 0 {
                a.transfer = Some(("distributor", n));
            }
            a
        }
        33 => {
            let shape = r.below(3);
            let msg = match shape {
                0 => lm::ExecuteMsg::UpdateConfig { owner: Some(n.to_string()), unbonding_period: None, growth_rate: None, fee_distributor_addr: None },
                1 => lm::ExecuteMsg::UpdateConfig { owner: None, unbonding_period: Some(Uint64::new(1_000_000_000)), growth_rate: Some(dec(ONE18 / 2)), fee_distributor_addr: None },
                _ => lm::ExecuteMsg::UpdateConfig { owner: None, unbonding_period: None, growth_rate: None, fee_distributor_addr: Some(core.distributor.to_string()) },
            };
            let mut a = mk(&format!("whale_lair.UpdateConfig/{}", ["owner", "params", "fee_distributor"][shape as usize]), "lair", &core.lair, bin(&msg), o("lair"));
            if shape == 0 {
                a.transfer = Some(("lair", n));
            }
            a
        }
        // ---------------- incentive factory / incentive / helper
        34 => mk("incentive_factory.CreateIncentive", "ifactory", &w.inc.ifactory, bin(&ifm::ExecuteMsg::CreateIncentive { lp_asset: AssetInfo::NativeToken { denom: "ux03".into() } }), o("ifactory")),
        35 => {
            let shape = r.below(3);
            let msg = match shape {
                0 => ifm::ExecuteMsg::UpdateConfig { owner: Some(n.to_string()), fee_collector_addr: None, fee_distributor_addr: None, create_flow_fee: None, max_concurrent_flows: None, incentive_code_id: None, max_flow_start_time_buffer: None, min_unbonding_duration: None, max_unbonding_duration: None },
                1 => ifm::ExecuteMsg::UpdateConfig { owner: None, fee_collector_addr: Some(core.collector.to_string()), fee_distributor_addr: Some(core.distributor.to_string()), create_flow_fee: None, max_concurrent_flows: Some(5), incentive_code_id: None, max_flow_start_time_buffer: None, min_unbonding_duration: None, max_unbonding_duration: None },
                _ => ifm::ExecuteMsg::UpdateConfig { owner: None, fee_collector_addr: None, fee_distributor_addr: None, create_flow_fee: Some(AssetRef::Native("uwhale".into()).asset(1)), max_concurrent_flows: None, incentive_code_id: Some(core.codes.incentive), max_flow_start_time_buffer: None, min_unbonding_duration: None, max_unbonding_duration: None },
            };
            let mut a = mk(&format!("incentive_factory.UpdateConfig/{}", ["owner", "addresses", "fee+code"][shape as usize]), "ifactory", &w.inc.ifactory, bin(&msg), o("ifactory"));
            if shape == 0 {
                a.transfer = Some(("ifactory", n));
            }
            a
        }
        36 => mk("incentive_factory.MigrateIncentives", "ifactory", &w.inc.ifactory, bin(&ifm::ExecuteMsg::MigrateIncentives { incentive_address: if r.chance(1, 2) { Some(w.inc.incentive.to_string()) } else { None }, code_id: w.sib_code }), o("ifactory")),
        37 | 38 => {
            let flows = w.inc.flows();
            let id = flows.first().map(|f| f.flow_id).unwrap_or(1);
            let first_is_labelled = flows.first().map(|f| f.flow_label.as_deref() == Some("promo") && f.flow_creator == w.flow_creator).unwrap_or(false);
            if first_is_labelled && r.chance(1, 2) {
                mk("incentive.CloseFlow", "ifactory", &w.inc.incentive, bin(&im::ExecuteMsg::CloseFlow { flow_identifier: im::FlowIdentifier::Label("promo".to_string()) }), vec![w.flow_creator.clone(), w.owners["ifactory"].clone()])
            } else {
                mk("incentive.CloseFlow", "ifactory", &w.inc.incentive, bin(&im::ExecuteMsg::CloseFlow { flow_identifier: im::FlowIdentifier::Id(id) }), vec![w.flow_creator.clone(), w.owners["ifactory"].clone()])
            }
        }
        39 => {
            let shape = r.below(2);
            let mut a = mk(&format!("frontend_helper.UpdateConfig/{}", ["owner", "incentive_factory"][shape as usize]), "helper", &w.inc.helper, bin(&hm::ExecuteMsg::UpdateConfig { incentive_factory_addr: if shape == 1 { Some(w.inc.ifactory.to_string()) } else { None }, owner: if shape == 0 { Some(n.to_string()) } else { None } }), o("helper"));
            if shape == 0 {
                a.transfer = Some(("helper", n));
            }
            a
        }
        // ---------------- epoch manager
        40 => {
            let mut a = mk("epoch_manager.AddHook", "emgr", &w.emgr, bin(&em::ExecuteMsg::AddHook { contract_addr: w.sibling.to_string() }), o("emgr"));
            a.commit_ok = false;
            a
        }
        41 | 42 => mk("epoch_manager.RemoveHook", "emgr", &w.emgr, bin(&em::ExecuteMsg::RemoveHook { contract_addr: w.hook.to_string() }), o("emgr")),
        43 | 44 => {
            let shape = r.below(2);
            let cfg: em::ConfigResponse = query(&w.inc.app, &w.emgr, &em::QueryMsg::Config {}).unwrap();
            let mut a = mk(
                &format!("epoch_manager.UpdateConfig/{}", ["owner", "epoch_config"][shape as usize]),
                "emgr",
                &w.emgr,
                bin(&em::ExecuteMsg::UpdateConfig { owner: if shape == 0 { Some(n.to_string()) } else { None }, epoch_config: if shape == 1 { Some(em::EpochConfig { duration: Uint64::new(2 * DAY_NS), genesis_epoch: cfg.epoch_config.genesis_epoch }) } else { None } }),
                o("emgr"),
            );
            if shape == 0 {
                a.transfer = Some(("emgr", n));
            }
            a
        }
        // ---------------- forged cw20 hooks: Receive must come from the designated token contract
        47 => mk(
            "pair.Receive.WithdrawLiquidity(forged)",
            "pair",
            &pair.addr,
            bin(&pm::ExecuteMsg::Receive(cw20::Cw20ReceiveMsg { sender: w.inc.users[3].to_string(), amount: Uint128::new(1_000_000), msg: bin(&pm::Cw20HookMsg::WithdrawLiquidity {}) })),
            vec![pair.lp.clone()],
        ),
        48 => {
            let toks: Vec<Addr> = pair.assets.iter().filter_map(|a| if let AssetRef::Cw20(t) = a { Some(t.clone()) } else { None }).collect();
            mk("pair.Receive.Swap(forged)", "pair", &pair.addr, bin(&pm::ExecuteMsg::Receive(cw20::Cw20ReceiveMsg { sender: w.inc.users[3].to_string(), amount: Uint128::new(1_000_000), msg: bin(&pm::Cw20HookMsg::Swap { belief_price: None, max_spread: None, to: None }) })), toks)
        }
        49 => mk(
            "trio.Receive.WithdrawLiquidity(forged)",
            "trio",
            &w.trio.addr,
            bin(&tm::ExecuteMsg::Receive(cw20::Cw20ReceiveMsg { sender: w.inc.users[3].to_string(), amount: Uint128::new(1_000_000), msg: bin(&tm::Cw20HookMsg::WithdrawLiquidity {}) })),
            vec![w.trio.lp.clone()],
        ),
        50 | 51 => {
            let v = r.idx(2);
            mk(
                "vault.Receive.Withdraw(forged)",
                if v == 0 { "vault0" } else { "vault1" },
                &w.vaults[v].addr,
                Binary::from(serde_json::to_vec(&json!({"receive": {"sender": w.inc.users[3].to_string(), "amount": "1000", "msg": bin(&vm::Cw20HookMsg::Withdraw {}).to_base64()}})).unwrap()),
                vec![w.vaults[v].lp.clone()],
            )
        }
        52 => mk("lp_token.UpdateMinter", "pair", &pair.lp, bin(&cw20::Cw20ExecuteMsg::UpdateMinter { new_minter: Some(w.inc.users[3].to_string()) }), vec![pair.addr.clone()]),
        // ---------------- LP token (terraswap_token): only the pool may mint
        _ => mk("lp_token.Mint", "pair", &pair.lp, bin(&cw20::Cw20ExecuteMsg::Mint { recipient: w.inc.users[3].to_string(), amount: Uint128::new(1_000_000) }), vec![pair.addr.clone()]),
    }
}

/// owner as reported by the contract's own Config query (where the response carries one)
fn owner_reported(w: &W16, key: &str) -> Option<Addr> {
    let core = &w.inc.core;
    let app = &w.inc.app;
    match key {
        "pair" => query::<pm::ConfigResponse, _>(app, &w.inc.pair.as_ref()?.addr, &pm::QueryMsg::Config {}).ok().map(|c| c.owner),
        "trio" => query::<tm::ConfigResponse, _>(app, &w.trio.addr, &tm::QueryMsg::Config {}).ok().map(|c| c.owner),
        "vault0" => query::<vm::Config, _>(app, &w.vaults[0].addr, &vm::QueryMsg::Config {}).ok().map(|c| c.owner),
        "vault1" => query::<vm::Config, _>(app, &w.vaults[1].addr, &vm::QueryMsg::Config {}).ok().map(|c| c.owner),
        "factory" => query::<fm::ConfigResponse, _>(app, &core.factory, &fm::QueryMsg::Config {}).ok().map(|c| Addr::unchecked(c.owner)),
        "collector" => query::<fc::Config, _>(app, &core.collector, &fc::QueryMsg::Config {}).ok().map(|c| c.owner),
        "distributor" => query::<fd::Config, _>(app, &core.distributor, &fd::QueryMsg::Config {}).ok().map(|c| c.owner),
        "lair" => query::<lm::Config, _>(app, &core.lair, &lm::QueryMsg::Config {}).ok().map(|c| c.owner),
        _ => None,
    }
}

fn is_auth_error(e: &str) -> bool {
    let l = e.to_lowercase();
    l.contains("unauthorized") || l.contains("not admin") || l.contains("unauthorised") || l.contains("only the") || l.contains("caller is not")
}

fn short(e: &str) -> String {
    let cs: Vec<char> = e.chars().collect();
    cs[cs.len().saturating_sub(110)..].iter().collect()
}

fn callers(w: &W16, a: &Action) -> Vec<(String, Addr, bool)> {
    let core = &w.inc.core;
    let pair = w.inc.pair.as_ref().unwrap();
    let mut v: Vec<(String, Addr, bool)> = vec![];
    let mut push = |role: &str, addr: &Addr, relay: bool, v: &mut Vec<(String, Addr, bool)>| {
        if relay || !v.iter().any(|x| x.1 == *addr && !x.2) {
            v.push((role.to_string(), addr.clone(), relay));
        }
    };
    if a.key != "router" {
        push("owner-of-record", &w.owners[a.key], false, &mut v);
    } else if let Some(ad) = &w.router_admin {
        push("owner-of-record", ad, false, &mut v);
    }
    for au in &a.authorised {
        push("designated", au, false, &mut v);
    }
    if let Some(ps) = w.prev.get(a.key) {
        for p in ps {
            push("previous-owner", p, false, &mut v);
        }
    }
    push("deployer", &w.owner, false, &mut v);
    push("user", &w.inc.users[0], false, &mut v);
    push("attacker", &w.inc.users[3], false, &mut v);
    push("contract-itself", &a.target, false, &mut v);
    push("pool-factory", &core.factory, false, &mut v);
    push("vault-factory", &core.vault_factory, false, &mut v);
    push("incentive-factory", &w.inc.ifactory, false, &mut v);
    for (role, s) in [("sibling:pair", &pair.addr), ("sibling:vault", &w.vaults[0].addr), ("sibling:vault1", &w.vaults[1].addr), ("sibling:vault-router", &core.vault_router), ("sibling:fee-collector", &core.collector), ("sibling:fee-distributor", &core.distributor), ("sibling:pool-router", &core.router)] {
        push(role, s, false, &mut v);
    }
    v.push(("relay-contract-driven-by-attacker".to_string(), w.sibling.clone(), true));
    v
}

fn send(w: &mut W16, a: &Action, caller: &Addr, relay: bool) -> Result<cw_multi_test::AppResponse, String> {
    let inner: CosmosMsg = WasmMsg::Execute { contract_addr: a.target.to_string(), msg: a.msg.clone(), funds: a.funds.clone() }.into();
    if relay {
        let attacker = w.inc.users[3].clone();
        exec(&mut w.inc.app, &attacker, &w.sibling.clone(), &SiblingExec::Relay { msgs: vec![inner] }, &[])
    } else {
        w.inc.app.execute(caller.clone(), inner).map_err(|e| format!("{e:#}"))
    }
}

fn detail(w: &W16, extra: Value) -> Value {
    let k = w.hist.len().saturating_sub(10);
    let owners: BTreeMap<String, String> = w.owners.iter().map(|(k, v)| (k.to_string(), v.to_string())).collect();
    json!({"owners_of_record": owners, "previous_owners": w.prev.iter().map(|(k, v)| (k.to_string(), v.iter().map(|a| a.to_string()).collect::<Vec<_>>())).collect::<BTreeMap<_, _>>(), "router_admin": w.router_admin.as_ref().map(|a| a.to_string()), "last_steps": w.hist[k..].to_vec(), "extra": extra})
}

fn history(acc: &mut Acc, r: &mut Rng, variant: u64, steps: u64) {
    let mut w = build(r, variant);
    for _ in 0..steps {
        // occasionally move the router's wasm admin (committed, not judged: it is a chain message, not a contract message)
        if w.router_admin.is_some() && r.chance(1, 25) {
            let cur = w.router_admin.clone().unwrap();
            let n = new_owner_cand(&w, r);
            let router = w.inc.core.router.clone();
            if w.inc.app.execute(cur.clone(), WasmMsg::UpdateAdmin { contract_addr: router.to_string(), admin: n.to_string() }.into()).is_ok() {
                w.hist.push(format!("router wasm admin {cur} -> {n}"));
                if cur != n {
                    w.prev.entry("router").or_default().push(cur);
                    w.prev.get_mut("router").unwrap().retain(|p| *p != n);
                }
                w.router_admin = Some(n);
                acc.count("transfer.committed.router-admin");
            }
        }
        let a = pick_action(&w, r);
        w.hist.push(format!("judge {} (authorised: {:?})", a.name, a.authorised.iter().map(|x| x.to_string()).collect::<Vec<_>>()));
        let s0 = snap(&w.inc.app);
        let cs = callers(&w, &a);
        // run the authorised callers first: their outcome is the reference for undecided cells
        let mut auth_ok = false;
        let mut auth_err = String::new();
        let mut results: Vec<(String, Addr, bool, Result<(), String>, bool)> = vec![];
        for (role, addr, relay) in &cs {
            let res = send(&mut w, &a, addr, *relay).map(|_| ());
            let changed = !same_state(&s0, &snap(&w.inc.app));
            restore(&mut w.inc.app, &s0);
            let is_auth = !*relay && a.authorised.contains(addr);
            if is_auth {
                match &res {
                    Ok(_) => auth_ok = true,
                    Err(e) => auth_err = e.clone(),
                }
            }
            results.push((role.clone(), addr.clone(), *relay, res, changed));
        }
        for (role, addr, relay, res, changed) in &results {
            let is_auth = !*relay && a.authorised.contains(addr);
            let aname = a.name.split('/').next().unwrap_or(&a.name).to_string();
            acc.case(&[hash_str(&a.name), hash_str(role), is_auth as u64, res.is_ok() as u64]);
            acc.count(&format!("cell.{}.{}", aname, if is_auth { "authorised" } else { "unauthorised" }));
            if is_auth {
                acc.count("check.A2.authorised-caller");
                match res {
                    Ok(_) => {
                        acc.count("a2.accepted");
                        acc.count(&format!("accepted-for-authorised.{aname}"));
                        if w.prev.get(a.key).map(|p| !p.is_empty()).unwrap_or(false) && role == "owner-of-record" {
                            acc.count("a2.new-owner-after-transfer-accepted");
                        }
                    }
                    Err(e) => {
                        if is_auth_error(e) {
                            acc.violation("C16", &format!("A2/authorised-caller-rejected/{aname}/{role}"), detail(&w, json!({"action": a.name, "caller": addr.to_string(), "err": short(e)})));
                        } else {
                            acc.count("a2.rejected-for-another-reason");
                        }
                    }
                }
            } else {
                acc.count("check.A1.unauthorised-caller");
                match res {
                    Ok(_) => {
                        if a.open_door {
                            acc.violation("C16", &format!("A1/unauthorised-caller-accepted/{aname}/router-without-wasm-admin"), detail(&w, json!({"action": a.name, "caller": addr.to_string(), "role": role})));
                        } else {
                            acc.count(&format!("a1.accepted-role.{aname}.{}", if role.starts_with("sibling") { "sibling-contract" } else { role.as_str() }));
                            acc.violation("C16", &format!("A1/unauthorised-caller-accepted/{aname}"), detail(&w, json!({"action": a.name, "caller": addr.to_string(), "role": role})));
                        }
                    }
                    Err(e) => {
                        acc.count("a1.rejected");
                        if *changed {
                            acc.violation("C16", &format!("A1/rejected-call-changed-state/{aname}"), detail(&w, json!({"action": a.name, "caller": addr.to_string()})));
                        }
                        if role == "previous-owner" {
                            acc.count("a1.previous-owner-rejected");
                        }
                        if is_auth_error(e) || auth_ok {
                            acc.count("a1.rejected.decided");
                            acc.count(&format!("rejected-for-unauthorised.{aname}"));
                        } else {
                            acc.count("a1.rejected.undecided(same-failure-as-authorised-caller)");
                            let _ = &auth_err;
                        }
                    }
                }
            }
        }
        // commit ownership transfers (and route additions) made by the authorised caller
        if let Some((key, n)) = &a.transfer {
            if auth_ok && r.chance(1, 2) {
                let caller = a.authorised[0].clone();
                if send(&mut w, &a, &caller, false).is_ok() {
                    let old = w.owners[key].clone();
                    w.hist.push(format!("COMMIT {}: owner of {key} {old} -> {n}", a.name));
                    if old != *n {
                        w.prev.entry(key).or_default().push(old);
                    }
                    if let Some(p) = w.prev.get_mut(key) {
                        p.retain(|x| x != n);
                    }
                    w.owners.insert(key, n.clone());
                    acc.count("transfer.committed");
                    // the contract itself must now report the new owner (a transfer that is accepted but not applied
                    // leaves the old owner in charge)
                    if let Some(actual) = owner_reported(&w, key) {
                        acc.count("check.A3.transfer-applied");
                        if actual != *n {
                            acc.violation("C16", &format!("A3/accepted-ownership-transfer-not-applied/{key}"), detail(&w, json!({"action": a.name, "expected_owner": n.to_string(), "reported_owner": actual.to_string()})));
                        }
                    }
                    acc.count(&format!("transfer.committed.{key}"));
                }
            }
        } else if a.commit_ok && auth_ok && r.chance(1, 3) {
            let caller = a.authorised[0].clone();
            let _ = send(&mut w, &a, &caller, false);
        }
        if r.chance(1, 5) {
            advance(&mut w.inc.app, 1, 6_000_000_000);
        }
    }
    for (k, v) in crate::trap::traps_take() {
        acc.add(&format!("trap-site: {k}"), v);
    }
    let k = w.hist.len().saturating_sub(6);
    acc.sample(|| json!({"variant": variant, "tail": w.hist[k..].to_vec()}));
}

pub fn run(ctx: &Ctx) -> (CheckMeta, Acc) {
    let n = ctx.tier.pick(80, 4000);
    let steps = ctx.tier.pick(60, 120);
    let ph = hash_str("C16");
    let total = run_shards(ctx, 16, |sh, acc| {
        for h in 0..ctx.scaled(n) {
            if let Some(rp) = &ctx.replay {
                if rp.history != h {
                    continue;
                }
            }
            acc.history = h;
            let mut r = Rng::from_parts(&[ctx.seed, ph, sh, h]);
            history(acc, &mut r, sh + 16 * h, steps);
        }
        // internal callback attempted by the borrower while its own loan is open
        for h in 0..ctx.scaled(ctx.tier.pick(6, 300)) {
            let hid = 3_000_000_000 + h;
            if let Some(rp) = &ctx.replay {
                if rp.history != hid {
                    continue;
                }
            }
            acc.history = hid;
            let mut r = Rng::from_parts(&[ctx.seed, ph, sh, hid]);
            crate::mon::vaults::forged_callback_probe(acc, &mut r);
        }
    });
    let mut obligations: Vec<String> = vec!["check.A1.unauthorised-caller".into(), "check.A2.authorised-caller".into(), "a1.previous-owner-rejected".into(), "a2.new-owner-after-transfer-accepted".into(), "transfer.committed".into(), "check.A3.transfer-applied".into(), "check.A1.forged-callback-inside-a-loan".into(), "rejected-for-unauthorised.vault.Callback.AfterTrade.inside-a-loan".into()];
    for a in [
        "factory.UpdateConfig", "factory.UpdatePairConfig", "factory.UpdateTrioConfig", "factory.CreatePair", "factory.CreateTrio", "factory.AddNativeTokenDecimals", "factory.MigratePair", "factory.MigrateTrio", "factory.RemovePair", "factory.RemoveTrio",
        "pair.UpdateConfig", "trio.UpdateConfig", "router.AddSwapRoutes", "router.RemoveSwapRoutes", "router.ExecuteSwapOperation",
        "vault_factory.CreateVault", "vault_factory.MigrateVaults", "vault_factory.RemoveVault", "vault_factory.UpdateVaultConfig", "vault_factory.UpdateConfig", "vault.UpdateConfig", "vault.Callback.AfterTrade",
        "vault_router.UpdateConfig", "vault_router.NextLoan", "vault_router.CompleteLoan", "fee_collector.UpdateConfig", "fee_collector.ForwardFees", "fee_distributor.UpdateConfig", "whale_lair.UpdateConfig",
        "incentive_factory.CreateIncentive", "incentive_factory.UpdateConfig", "incentive_factory.MigrateIncentives", "incentive.CloseFlow", "frontend_helper.UpdateConfig",
        "epoch_manager.AddHook", "epoch_manager.RemoveHook", "epoch_manager.UpdateConfig", "lp_token.Mint", "lp_token.UpdateMinter",
        "pair.Receive.WithdrawLiquidity(forged)", "pair.Receive.Swap(forged)", "trio.Receive.WithdrawLiquidity(forged)", "vault.Receive.Withdraw(forged)",
    ] {
        obligations.push(format!("rejected-for-unauthorised.{a}"));
    }
    for a in [
        "factory.UpdateConfig", "factory.UpdatePairConfig", "factory.UpdateTrioConfig", "factory.CreatePair", "factory.CreateTrio", "factory.AddNativeTokenDecimals", "factory.MigratePair", "factory.MigrateTrio", "factory.RemovePair", "factory.RemoveTrio",
        "pair.UpdateConfig", "trio.UpdateConfig", "router.AddSwapRoutes", "router.RemoveSwapRoutes",
        "vault_factory.CreateVault", "vault_factory.MigrateVaults", "vault_factory.RemoveVault", "vault_factory.UpdateVaultConfig", "vault_factory.UpdateConfig", "vault.UpdateConfig",
        "vault_router.UpdateConfig", "fee_collector.UpdateConfig", "fee_distributor.UpdateConfig", "whale_lair.UpdateConfig",
        "incentive_factory.CreateIncentive", "incentive_factory.UpdateConfig", "incentive_factory.MigrateIncentives", "incentive.CloseFlow", "frontend_helper.UpdateConfig",
        "epoch_manager.AddHook", "epoch_manager.RemoveHook", "epoch_manager.UpdateConfig",
    ] {
        obligations.push(format!("accepted-for-authorised.{a}"));
    }
    let meta = CheckMeta {
        level: "exploration",
        rule: "one world with all 15 contracts (pool factory, pair, trio, router, LP token, vault factory, two vaults, vault router, fee collector, fee distributor, whale lair, incentive factory, incentive, frontend helper, epoch manager). Each step draws one privileged message (44 contract x variant entries, 2-5 payload shapes each: owner / fees / toggles / addresses / code ids / empty) and sends it from the same snapshot as every role: owner of record, every previous owner, deployer, user, attacker, a relay contract driven by the attacker, the target itself, the three factories and six sibling system contracts (exact contract senders). An ownership model, updated only by committed transfers (UpdateConfig{owner}, factory-mediated child transfers, wasm admin moves), names the authorised senders (children: their current owner, self-callbacks: the contract, ForwardFees: the distributor, NextLoan: the registered source vault, CloseFlow: creator or factory owner, Mint: the pool). A1: every other sender is rejected and the chain state is byte-identical; a rejection counts as decided when it is an authorisation error or the authorised sender was accepted in the same state. A separate probe lets the borrower contract call the vault's AfterTrade callback from inside its own flash loan (plain and swallowed). A2: an authorised sender (notably a new owner after a transfer) is never rejected with an authorisation error. distinct = (message shape, role, authorised, outcome).".to_string(),
        assumptions: vec!["the 'contract itself' and sibling roles are produced by cw-multi-test's ability to execute as any address".into(), "cells where the authorised sender fails for the same non-authorisation reason are counted as undecided, not as held".into()],
        obligations,
    };
    (meta, total)
}
