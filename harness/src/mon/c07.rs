//! C07 — protocol / burn fee accounting. Rides on the pair (CP + stableswap), trio and vault
//! history workloads; only C07-tagged verdicts decide this check.
use crate::mon::pools::Kind;
use crate::rt::{run_shards, Acc, CheckMeta, Ctx};

pub fn run(ctx: &Ctx) -> (CheckMeta, Acc) {
    let n = ctx.tier.pick(30, 1000);
    let total = run_shards(ctx, 16, |sh, acc| {
        let rp = ctx.replay.as_ref().map(|r| r.history);
        // history ids are partitioned by workload so that a replay re-runs the right one
        let sel = |lo: u64| rp.map(|h| h >= lo && h < lo + 100_000_000).unwrap_or(true);
        if sel(1_000_000_000) {
            crate::mon::pools::run_histories(ctx, sh, acc, n, ctx.tier.pick(80, 200), "C07", Kind::Cp);
        }
        if sel(1_100_000_000) {
            crate::mon::pools::run_histories(ctx, sh, acc, n, ctx.tier.pick(80, 150), "C07", Kind::Stable);
        }
        if sel(1_200_000_000) {
            crate::mon::c04::run_trio_histories(ctx, sh, acc, n, ctx.tier.pick(100, 250), "C07");
        }
        if sel(1_300_000_000) {
            crate::mon::c05::run_vault_histories(ctx, sh, acc, n, ctx.tier.pick(80, 200));
        }
    });
    let meta = CheckMeta {
        level: "exploration",
        rule: "shadow ledger per (contract, asset) fed only by observations: charged += protocol fee of every committed swap / completed loan (from the response attributes, whose equality with the quote is C14's job), sent += every balance increase of the configured collector caused by a collection. A1 after every committed step of every history: ProtocolFees{} == charged - sent, ProtocolFees{all_time} == charged, BurnedFees == sum of burns, counters monotone. A2 on every CollectProtocolFees: whole-world balance diff consists only of pool->collector transfers of full pending amounts, reserves / LP supply / LP backing unchanged. A3: asset total supply drops by the burn fee of each swap / loan (C14 Q4 / C06 L3 on the same runs). Workloads: constant-product pair, stableswap pair, three-asset pool and vault histories (see C01, C03, C04, C05). distinct = distinct operation-sequence classes of those workloads.".to_string(),
        assumptions: vec!["A collection may defer an asset whose pending amount it does not transfer, provided the amount stays in the ledger (A1); a transfer that is made must be the full pending amount".into()],
        obligations: vec!["check.A1".into(), "check.A2".into(), "check.A1.trio".into(), "check.A2.trio".into(), "check.A1.vault".into(), "check.A2.vault".into(), "collect.with-subthreshold-pending".into(), "vcollect.pending=0".into(), "vcollect.pending>1000".into(), "check.A3.burn-leaves-circulation".into(), "check.L3.burn-destroyed".into()],
    };
    (meta, total)
}
