//! C09 — fee distributor epoch ledgers (rides on the full-system history driver, sys.rs).
use crate::rt::{run_shards, Acc, CheckMeta, Ctx};

pub fn run(ctx: &Ctx) -> (CheckMeta, Acc) {
    let n = ctx.tier.pick(60, 3000);
    let steps = ctx.tier.pick(150, 300);
    let total = run_shards(ctx, 16, |sh, acc| crate::mon::sys::run_sys_histories(ctx, sh, acc, n, steps, "C09"));
    let meta = CheckMeta {
        level: "exploration",
        rule: "full-system histories (real collector, distributor, lair, pool factory with 3 pairs, router with 0-3 routes, vault factory with 3 vaults): 3 bonders bond / unbond / claim in random order, fee inflows from real swaps, real flash loans and direct transfers to the collector, grace period 1..5 with increases mid-history, NewEpoch attempted 1-3 times per boundary by anybody (on time, early, 2 days late), take-rate changes, route faults. After every claim and epoch creation: E1 claimed+available=total for every epoch in the window, E2 roll-over exactly once from the model's expiring epoch and emptied there, every other epoch untouched, E3 distributor balance >= sum of available, E4 payout = ledger decrease, (address, epoch) paid at most once, never before first bond, never outside the grace window. distinct = distinct (grace, take-rate/dao config, route mask, last-4 op kinds) tuples.".to_string(),
        assumptions: vec!["the model's 'bonded since' is the time of the address's first successful bond".into()],
        obligations: vec!["check.E1".into(), "check.E2".into(), "check.E3".into(), "check.E4".into(), "new_epoch.rolled-over-unclaimed".into(), "claim.ok".into(), "claim.rejected".into(), "new_epoch.with-fees".into(), "sys.grace-changed".into()],
    };
    (meta, total)
}
