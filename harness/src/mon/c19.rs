//! C19 — factories and router: one child per asset set; the registry tells the truth.
use crate::rng::{hash_str, Rng};
use crate::rt::{run_shards, Acc, CheckMeta, Ctx, Tier};
use crate::wide::ONE18;
use crate::world::*;
use cosmwasm_std::{coin, Addr, Uint128};
use serde_json::{json, Value};
use std::collections::{BTreeMap, BTreeSet};
use white_whale_std::pool_network::asset::{AssetInfo, PairInfo, PairType, TrioInfo};
use white_whale_std::pool_network::factory as fm;
use white_whale_std::pool_network::incentive_factory as ifm;
use white_whale_std::pool_network::pair as pm;
use white_whale_std::pool_network::router as rm;
use white_whale_std::vault_network::vault_factory as vfm;

const FUNDS: u128 = 1u128 << 100;

struct W19 {
    app: cw_multi_test::App,
    core: Core,
    ifactory: Addr,
    universe: Vec<AssetRef>,
    ops: Vec<String>,
    pairs: BTreeMap<BTreeSet<String>, Addr>,
    trios: BTreeMap<BTreeSet<String>, Addr>,
    vaults: BTreeMap<String, Addr>,
    incentives: BTreeMap<String, Addr>,
    removed_pairs: BTreeSet<BTreeSet<String>>,
    routes: Vec<(usize, usize, Vec<rm::SwapOperation>)>,
}

fn detail(w: &W19, extra: Value) -> Value {
    let k = w.ops.len().saturating_sub(15);
    json!({"last_ops": w.ops[k..].to_vec(), "extra": extra})
}

fn set_of(infos: &[AssetInfo]) -> BTreeSet<String> {
    infos.iter().map(|i| AssetRef::from_info(i).id()).collect()
}

fn key_bytes(a: &AssetRef) -> Vec<u8> {
    match a {
        AssetRef::Native(d) => d.as_bytes().to_vec(),
        // MockApi canonical form is not needed for collision reasoning between natives
        AssetRef::Cw20(c) => c.as_bytes().to_vec(),
    }
}

/// true if the unordered native pair {a,b} concatenates (sorted) to the same bytes as a different registered native pair
fn native_key_collision(w: &W19, a: &AssetRef, b: &AssetRef) -> bool {
    if !a.is_native() || !b.is_native() {
        return false;
    }
    let mut v = vec![key_bytes(a), key_bytes(b)];
    v.sort();
    let k = v.concat();
    let me: BTreeSet<String> = [a.id(), b.id()].into_iter().collect();
    w.pairs.keys().chain(w.removed_pairs.iter()).any(|s| {
        if *s == me || s.len() != 2 {
            return false;
        }
        let mut x: Vec<Vec<u8>> = s.iter().map(|d| d.as_bytes().to_vec()).collect();
        x.sort();
        x.concat() == k
    })
}

fn build(r: &mut Rng, thorough: bool) -> W19 {
    let owner = Addr::unchecked("owner");
    let ibc = format!("ibc/{}", "A1B2C3D4E5F60718293A4B5C6D7E8F90A1B2C3D4E5F60718293A4B5C6D7E8F90");
    let fac = "factory/migaloo1contractaddressxyz/uLP".to_string();
    let mut natives: Vec<String> = vec!["uaaa".into(), "ubbb".into(), "uccc".into(), ibc, fac];
    // prefix-related family (min 3 chars): "abc"+"defg" == "abcd"+"efg"
    if thorough || r.chance(1, 2) {
        natives.extend(["abc".to_string(), "defg".into(), "abcd".into(), "efg".into()]);
    }
    let mut balances = vec![(owner.clone(), natives.iter().map(|d| coin(FUNDS, d)).collect::<Vec<_>>())];
    balances[0].1.push(coin(FUNDS, "uwhale"));
    let mut app = new_app(balances);
    let core = deploy_core(&mut app, &owner, &CoreParams::default());
    for d in &natives {
        add_native_decimals(&mut app, &owner, &core.factory, d, *r.pick(&[6u8, 8, 18]));
    }
    let mut universe: Vec<AssetRef> = natives.iter().map(|d| AssetRef::Native(d.clone())).collect();
    for i in 0..3 {
        let t = create_cw20(&mut app, &core.codes, &owner, &format!("CW{}", ["A", "B", "C"][i]), [6u8, 8, 18][i], &[(owner.clone(), FUNDS)], None);
        universe.push(AssetRef::Cw20(t));
    }
    let ifactory = inst(
        &mut app,
        core.codes.incentive_factory,
        &owner,
        &ifm::InstantiateMsg {
            fee_collector_addr: core.collector.to_string(),
            fee_distributor_addr: core.distributor.to_string(),
            create_flow_fee: AssetRef::Native("uwhale".into()).asset(1000),
            max_concurrent_flows: 3,
            incentive_code_id: core.codes.incentive,
            max_flow_epoch_buffer: 14,
            min_unbonding_duration: 86_400,
            max_unbonding_duration: 31_556_926,
        },
        &[],
        "incentive_factory",
        None,
    )
    .unwrap();
    crate::mon::c08::catch_up_epochs(&mut app, &core, &owner);
    W19 { app, core, ifactory, universe, ops: vec![], pairs: BTreeMap::new(), trios: BTreeMap::new(), vaults: BTreeMap::new(), incentives: BTreeMap::new(), removed_pairs: BTreeSet::new(), routes: vec![] }
}

fn all_pairs_paged(w: &W19, limit: u32) -> Result<Vec<PairInfo>, String> {
    let mut out: Vec<PairInfo> = vec![];
    let mut cursor: Option<[AssetInfo; 2]> = None;
    for _ in 0..200 {
        let page: fm::PairsResponse = query(&w.app, &w.core.factory, &fm::QueryMsg::Pairs { start_after: cursor.clone(), limit: Some(limit) })?;
        if page.pairs.is_empty() {
            break;
        }
        if page.pairs.len() as u32 > limit.min(30) {
            return Err(format!("page longer than limit: {}", page.pairs.len()));
        }
        cursor = Some(page.pairs.last().unwrap().asset_infos.clone());
        let n = page.pairs.len();
        out.extend(page.pairs);
        if (n as u32) < limit.min(30) {
            break;
        }
    }
    Ok(out)
}

fn all_trios_paged(w: &W19, limit: u32) -> Result<Vec<TrioInfo>, String> {
    let mut out: Vec<TrioInfo> = vec![];
    let mut cursor: Option<[AssetInfo; 3]> = None;
    for _ in 0..200 {
        let page: fm::TriosResponse = query(&w.app, &w.core.factory, &fm::QueryMsg::Trios { start_after: cursor.clone(), limit: Some(limit) })?;
        if page.trios.is_empty() {
            break;
        }
        cursor = Some(page.trios.last().unwrap().asset_infos.clone());
        let n = page.trios.len();
        out.extend(page.trios);
        if (n as u32) < limit.min(30) {
            break;
        }
    }
    Ok(out)
}

fn all_vaults_paged(w: &W19, limit: u32) -> Result<Vec<vfm::VaultInfo>, String> {
    let mut out: Vec<vfm::VaultInfo> = vec![];
    let mut cursor: Option<Vec<u8>> = None;
    for _ in 0..200 {
        let page: vfm::VaultsResponse = query(&w.app, &w.core.vault_factory, &vfm::QueryMsg::Vaults { start_after: cursor.clone(), limit: Some(limit) })?;
        if page.vaults.is_empty() {
            break;
        }
        cursor = Some(page.vaults.last().unwrap().asset_info_reference.clone());
        let n = page.vaults.len();
        out.extend(page.vaults);
        if (n as u32) < limit.min(30) {
            break;
        }
    }
    Ok(out)
}

fn check_registry(acc: &mut Acc2, w: &W19, limits: &[u32], what: &str) {
    let acc = &mut *acc.0;
    // ---- pairs: R1 one per set, R2 lookups in both permutations agree with the child, R4 paging
    acc.count("check.R2.pairs");
    for (set, addr) in &w.pairs {
        let ids: Vec<&String> = set.iter().collect();
        let infos: Vec<AssetInfo> = ids.iter().map(|id| w.universe.iter().find(|a| a.id() == **id).unwrap().info()).collect();
        let own: Result<PairInfo, String> = query(&w.app, addr, &pm::QueryMsg::Pair {});
        for perm in [[0usize, 1], [1, 0]] {
            let q: Result<PairInfo, String> = query(&w.app, &w.core.factory, &fm::QueryMsg::Pair { asset_infos: [infos[perm[0]].clone(), infos[perm[1]].clone()] });
            match (&q, &own) {
                (Ok(e), Ok(o)) => {
                    if e.contract_addr != addr.as_str() || e != o {
                        let tag = if set_of(&e.asset_infos) != *set { "/lookup-returns-entry-of-another-asset-set" } else { "" };
                        acc.violation("C19", &format!("R2/pair-registry-entry!=child-report{tag}"), detail(w, json!({"queried": format!("{set:?}"), "entry": format!("{e:?}"), "child": format!("{o:?}"), "step": what})));
                    }
                }
                _ => acc.violation("C19", "R2/registered-pair-not-found-by-lookup", detail(w, json!({"queried": format!("{set:?}"), "perm": perm, "err": format!("{:?}", q.as_ref().err()), "step": what}))),
            }
        }
    }
    for set in &w.removed_pairs {
        if w.pairs.contains_key(set) {
            continue;
        }
        acc.count("check.R3.removed-pair-gone");
        let infos: Vec<AssetInfo> = set.iter().map(|id| w.universe.iter().find(|a| a.id() == *id).unwrap().info()).collect();
        let q: Result<PairInfo, String> = query(&w.app, &w.core.factory, &fm::QueryMsg::Pair { asset_infos: [infos[0].clone(), infos[1].clone()] });
        if let Ok(e) = q {
            let tag = if set_of(&e.asset_infos) != *set { "/lookup-returns-entry-of-another-asset-set" } else { "" };
            acc.violation("C19", &format!("R3/removed-pair-still-resolves{tag}"), detail(w, json!({"queried": format!("{set:?}"), "entry": format!("{e:?}"), "step": what})));
        }
    }
    // lookups of asset sets that are NOT registered must not resolve to somebody else's entry
    let fam: Vec<&AssetRef> = w.universe.iter().filter(|a| ["abc", "defg", "abcd", "efg", "uaaa", "ubbb"].contains(&a.id().as_str())).collect();
    for x in 0..fam.len() {
        for y in (x + 1)..fam.len() {
            let set: BTreeSet<String> = [fam[x].id(), fam[y].id()].into_iter().collect();
            if w.pairs.contains_key(&set) {
                continue;
            }
            acc.count("check.R2.unregistered-lookup");
            let q: Result<PairInfo, String> = query(&w.app, &w.core.factory, &fm::QueryMsg::Pair { asset_infos: [fam[x].info(), fam[y].info()] });
            if let Ok(e) = q {
                let collision = native_key_collision(w, fam[x], fam[y]);
                let tag = if collision { "/key-collision-of-concatenated-denoms" } else { "" };
                acc.violation("C19", &format!("R2/unregistered-set-resolves-to-foreign-entry{tag}"), detail(w, json!({"queried": format!("{set:?}"), "entry_assets": format!("{:?}", set_of(&e.asset_infos)), "step": what})));
            }
        }
    }
    for &limit in limits {
        acc.count("check.R4.pairs-paging");
        match all_pairs_paged(w, limit) {
            Ok(list) => {
                let mut seen: BTreeMap<BTreeSet<String>, u32> = BTreeMap::new();
                for p in &list {
                    *seen.entry(set_of(&p.asset_infos)).or_insert(0) += 1;
                }
                let want: BTreeSet<&BTreeSet<String>> = w.pairs.keys().collect();
                let got: BTreeSet<&BTreeSet<String>> = seen.keys().collect();
                if seen.values().any(|c| *c != 1) {
                    acc.violation("C19", "R1/pair-listed-more-than-once", detail(w, json!({"limit": limit, "seen": format!("{seen:?}"), "step": what})));
                }
                if want != got {
                    acc.violation("C19", "R4/pairs-paging!=registry", detail(w, json!({"limit": limit, "missing": format!("{:?}", want.difference(&got).collect::<Vec<_>>()), "extra": format!("{:?}", got.difference(&want).collect::<Vec<_>>()), "step": what})));
                }
            }
            Err(e) => acc.violation("C19", "R4/pairs-paging-query-failed", detail(w, json!({"limit": limit, "err": e, "step": what}))),
        }
    }
    // ---- trios
    acc.count("check.R2.trios");
    for (set, addr) in &w.trios {
        let infos: Vec<AssetInfo> = set.iter().map(|id| w.universe.iter().find(|a| a.id() == *id).unwrap().info()).collect();
        let own: Result<TrioInfo, String> = query(&w.app, addr, &white_whale_std::pool_network::trio::QueryMsg::Trio {});
        for perm in [[0usize, 1, 2], [0, 2, 1], [1, 0, 2], [1, 2, 0], [2, 0, 1], [2, 1, 0]] {
            let q: Result<TrioInfo, String> = query(&w.app, &w.core.factory, &fm::QueryMsg::Trio { asset_infos: [infos[perm[0]].clone(), infos[perm[1]].clone(), infos[perm[2]].clone()] });
            match (&q, &own) {
                (Ok(e), Ok(o)) => {
                    if e.contract_addr != addr.as_str() || e != o {
                        acc.violation("C19", "R2/trio-registry-entry!=child-report", detail(w, json!({"queried": format!("{set:?}"), "entry": format!("{e:?}"), "child": format!("{o:?}"), "step": what})));
                    }
                }
                _ => acc.violation("C19", "R2/registered-trio-not-found-by-lookup", detail(w, json!({"queried": format!("{set:?}"), "perm": perm, "step": what}))),
            }
        }
    }
    for &limit in limits {
        acc.count("check.R4.trios-paging");
        if let Ok(list) = all_trios_paged(w, limit) {
            let mut seen: BTreeMap<BTreeSet<String>, u32> = BTreeMap::new();
            for p in &list {
                *seen.entry(set_of(&p.asset_infos)).or_insert(0) += 1;
            }
            let want: BTreeSet<&BTreeSet<String>> = w.trios.keys().collect();
            let got: BTreeSet<&BTreeSet<String>> = seen.keys().collect();
            if seen.values().any(|c| *c != 1) || want != got {
                acc.violation("C19", "R4/trios-paging!=registry", detail(w, json!({"limit": limit, "seen": format!("{seen:?}"), "step": what})));
            }
        }
    }
    // ---- vaults
    acc.count("check.R2.vaults");
    for (id, addr) in &w.vaults {
        let info = w.universe.iter().find(|a| a.id() == *id).unwrap().info();
        let q: Result<Option<String>, String> = query(&w.app, &w.core.vault_factory, &vfm::QueryMsg::Vault { asset_info: info.clone() });
        let cfg: Result<white_whale_std::vault_network::vault::Config, String> = query(&w.app, addr, &white_whale_std::vault_network::vault::QueryMsg::Config {});
        match (q, cfg) {
            (Ok(Some(a)), Ok(c)) => {
                if a != addr.as_str() || c.asset_info != info {
                    acc.violation("C19", "R2/vault-registry-entry!=child-report", detail(w, json!({"asset": id, "entry": a, "child_asset": format!("{:?}", c.asset_info), "step": what})));
                }
            }
            other => acc.violation("C19", "R2/registered-vault-not-found-by-lookup", detail(w, json!({"asset": id, "got": format!("{other:?}"), "step": what}))),
        }
    }
    for &limit in limits {
        acc.count("check.R4.vaults-paging");
        if let Ok(list) = all_vaults_paged(w, limit) {
            let mut seen: BTreeMap<String, u32> = BTreeMap::new();
            for v in &list {
                *seen.entry(AssetRef::from_info(&v.asset_info).id()).or_insert(0) += 1;
            }
            let want: BTreeSet<&String> = w.vaults.keys().collect();
            let got: BTreeSet<&String> = seen.keys().collect();
            if seen.values().any(|c| *c != 1) || want != got {
                acc.violation("C19", "R4/vaults-paging!=registry", detail(w, json!({"limit": limit, "seen": format!("{seen:?}"), "want": format!("{want:?}"), "step": what})));
            }
        }
    }
    // ---- incentives
    acc.count("check.R2.incentives");
    for (id, addr) in &w.incentives {
        let info = w.universe.iter().find(|a| a.id() == *id).map(|a| a.info()).unwrap_or(AssetInfo::Token { contract_addr: id.clone() });
        let q: Result<Option<Addr>, String> = query(&w.app, &w.ifactory, &ifm::QueryMsg::Incentive { lp_asset: info.clone() });
        let cfg: Result<white_whale_std::pool_network::incentive::Config, String> = query(&w.app, addr, &white_whale_std::pool_network::incentive::QueryMsg::Config {});
        match (q, cfg) {
            (Ok(Some(a)), Ok(c)) => {
                if a != *addr || c.lp_asset != info {
                    acc.violation("C19", "R2/incentive-registry-entry!=child-report", detail(w, json!({"lp": id, "entry": a.to_string(), "child_lp": format!("{:?}", c.lp_asset), "step": what})));
                }
            }
            other => acc.violation("C19", "R2/registered-incentive-not-found-by-lookup", detail(w, json!({"lp": id, "got": format!("{other:?}"), "step": what}))),
        }
    }
    for &limit in limits {
        acc.count("check.R4.incentives-paging");
        let mut seen: BTreeMap<String, u32> = BTreeMap::new();
        let mut cursor: Option<AssetInfo> = None;
        for _ in 0..200 {
            let page: Result<Vec<ifm::IncentivesContract>, String> = query(&w.app, &w.ifactory, &ifm::QueryMsg::Incentives { start_after: cursor.clone(), limit: Some(limit) });
            let Ok(page) = page else { break };
            if page.is_empty() {
                break;
            }
            for c in &page {
                *seen.entry(c.incentive_address.to_string()).or_insert(0) += 1;
            }
            // the cursor is the LP asset of the last entry
            let last = page.last().unwrap().incentive_address.clone();
            let lpid = w.incentives.iter().find(|(_, a)| **a == last).map(|(k, _)| k.clone());
            cursor = lpid.map(|id| w.universe.iter().find(|a| a.id() == id).map(|a| a.info()).unwrap_or(AssetInfo::Token { contract_addr: id }));
            if cursor.is_none() || (page.len() as u32) < limit.min(30) {
                break;
            }
        }
        let want: BTreeSet<String> = w.incentives.values().map(|a| a.to_string()).collect();
        let got: BTreeSet<String> = seen.keys().cloned().collect();
        if seen.values().any(|c| *c != 1) || want != got {
            acc.violation("C19", "R4/incentives-paging!=registry", detail(w, json!({"limit": limit, "seen": format!("{seen:?}"), "want": format!("{want:?}"), "step": what})));
        }
    }
}

/// R4 under removal: read one page, remove the entry the cursor points at, keep paging from that cursor. Whatever is
/// still registered must be listed exactly once (first-page entries that were not removed + the following pages).
/// Runs on a snapshot and restores it.
fn probe_paging_with_removed_cursor(acc: &mut crate::rt::Acc, w: &mut W19, limit: u32, what: &str) {
    let owner = w.core.owner.clone();
    let s0 = snap(&w.app);
    // ---- vaults
    if w.vaults.len() as u32 > limit {
        acc.count("check.R4.vaults-paging-after-removing-the-cursor-entry");
        let first: Result<vfm::VaultsResponse, String> = query(&w.app, &w.core.vault_factory, &vfm::QueryMsg::Vaults { start_after: None, limit: Some(limit) });
        if let Ok(first) = first {
            if let Some(last) = first.vaults.last().cloned() {
                let removed_id = AssetRef::from_info(&last.asset_info).id();
                if exec(&mut w.app, &owner, &w.core.vault_factory.clone(), &vfm::ExecuteMsg::RemoveVault { asset_info: last.asset_info.clone() }, &[]).is_ok() {
                    let mut seen: BTreeMap<String, u32> = BTreeMap::new();
                    for v in first.vaults.iter().filter(|v| AssetRef::from_info(&v.asset_info).id() != removed_id) {
                        *seen.entry(AssetRef::from_info(&v.asset_info).id()).or_insert(0) += 1;
                    }
                    let mut cursor = Some(last.asset_info_reference.clone());
                    for _ in 0..200 {
                        let page: Result<vfm::VaultsResponse, String> = query(&w.app, &w.core.vault_factory, &vfm::QueryMsg::Vaults { start_after: cursor.clone(), limit: Some(limit) });
                        let Ok(page) = page else { break };
                        if page.vaults.is_empty() {
                            break;
                        }
                        cursor = Some(page.vaults.last().unwrap().asset_info_reference.clone());
                        let n = page.vaults.len() as u32;
                        for v in &page.vaults {
                            *seen.entry(AssetRef::from_info(&v.asset_info).id()).or_insert(0) += 1;
                        }
                        if n < limit.min(30) {
                            break;
                        }
                    }
                    let want: BTreeSet<String> = w.vaults.keys().filter(|k| **k != removed_id).cloned().collect();
                    let got: BTreeSet<String> = seen.keys().cloned().collect();
                    if want != got || seen.values().any(|c| *c != 1) {
                        acc.violation("C19", "R4/vaults-paging-after-removing-the-cursor-entry!=registry", detail(w, json!({"limit": limit, "removed": removed_id, "missing": format!("{:?}", want.difference(&got).collect::<Vec<_>>()), "extra": format!("{:?}", got.difference(&want).collect::<Vec<_>>()), "step": what})));
                    }
                }
            }
        }
        restore(&mut w.app, &s0);
    }
    // ---- trios
    if w.trios.len() as u32 > limit {
        acc.count("check.R4.trios-paging-after-removing-the-cursor-entry");
        let first: Result<fm::TriosResponse, String> = query(&w.app, &w.core.factory, &fm::QueryMsg::Trios { start_after: None, limit: Some(limit) });
        if let Ok(first) = first {
            if let Some(last) = first.trios.last().cloned() {
                let removed = set_of(&last.asset_infos);
                if exec(&mut w.app, &owner, &w.core.factory.clone(), &fm::ExecuteMsg::RemoveTrio { asset_infos: last.asset_infos.clone() }, &[]).is_ok() {
                    let mut seen: BTreeMap<BTreeSet<String>, u32> = BTreeMap::new();
                    for t in first.trios.iter().filter(|t| set_of(&t.asset_infos) != removed) {
                        *seen.entry(set_of(&t.asset_infos)).or_insert(0) += 1;
                    }
                    let mut cursor = Some(last.asset_infos.clone());
                    for _ in 0..200 {
                        let page: Result<fm::TriosResponse, String> = query(&w.app, &w.core.factory, &fm::QueryMsg::Trios { start_after: cursor.clone(), limit: Some(limit) });
                        let Ok(page) = page else { break };
                        if page.trios.is_empty() {
                            break;
                        }
                        cursor = Some(page.trios.last().unwrap().asset_infos.clone());
                        let n = page.trios.len() as u32;
                        for t in &page.trios {
                            *seen.entry(set_of(&t.asset_infos)).or_insert(0) += 1;
                        }
                        if n < limit.min(30) {
                            break;
                        }
                    }
                    let want: BTreeSet<BTreeSet<String>> = w.trios.keys().filter(|k| **k != removed).cloned().collect();
                    let got: BTreeSet<BTreeSet<String>> = seen.keys().cloned().collect();
                    if want != got || seen.values().any(|c| *c != 1) {
                        acc.violation("C19", "R4/trios-paging-after-removing-the-cursor-entry!=registry", detail(w, json!({"limit": limit, "removed": format!("{removed:?}"), "missing": format!("{:?}", want.difference(&got).collect::<Vec<_>>()), "extra": format!("{:?}", got.difference(&want).collect::<Vec<_>>()), "step": what})));
                    }
                }
            }
        }
        restore(&mut w.app, &s0);
    }
    // ---- pairs
    if w.pairs.len() as u32 > limit {
        acc.count("check.R4.pairs-paging-after-removing-the-cursor-entry");
        let first: Result<fm::PairsResponse, String> = query(&w.app, &w.core.factory, &fm::QueryMsg::Pairs { start_after: None, limit: Some(limit) });
        if let Ok(first) = first {
            if let Some(last) = first.pairs.last().cloned() {
                let removed = set_of(&last.asset_infos);
                if exec(&mut w.app, &owner, &w.core.factory.clone(), &fm::ExecuteMsg::RemovePair { asset_infos: last.asset_infos.clone() }, &[]).is_ok() {
                    let mut seen: BTreeMap<BTreeSet<String>, u32> = BTreeMap::new();
                    for t in first.pairs.iter().filter(|t| set_of(&t.asset_infos) != removed) {
                        *seen.entry(set_of(&t.asset_infos)).or_insert(0) += 1;
                    }
                    let mut cursor = Some(last.asset_infos.clone());
                    for _ in 0..200 {
                        let page: Result<fm::PairsResponse, String> = query(&w.app, &w.core.factory, &fm::QueryMsg::Pairs { start_after: cursor.clone(), limit: Some(limit) });
                        let Ok(page) = page else { break };
                        if page.pairs.is_empty() {
                            break;
                        }
                        cursor = Some(page.pairs.last().unwrap().asset_infos.clone());
                        let n = page.pairs.len() as u32;
                        for t in &page.pairs {
                            *seen.entry(set_of(&t.asset_infos)).or_insert(0) += 1;
                        }
                        if n < limit.min(30) {
                            break;
                        }
                    }
                    let want: BTreeSet<BTreeSet<String>> = w.pairs.keys().filter(|k| **k != removed).cloned().collect();
                    let got: BTreeSet<BTreeSet<String>> = seen.keys().cloned().collect();
                    // the known key collision of prefix-related denoms makes a removal hit a foreign entry: not judged here
                    let collision_family = removed.iter().any(|d| ["abc", "defg", "abcd", "efg"].contains(&d.as_str()));
                    if !collision_family && (want != got || seen.values().any(|c| *c != 1)) {
                        acc.violation("C19", "R4/pairs-paging-after-removing-the-cursor-entry!=registry", detail(w, json!({"limit": limit, "removed": format!("{removed:?}"), "missing": format!("{:?}", want.difference(&got).collect::<Vec<_>>()), "extra": format!("{:?}", got.difference(&want).collect::<Vec<_>>()), "step": what})));
                    }
                }
            }
        }
        restore(&mut w.app, &s0);
    }
}

struct Acc2<'a>(&'a mut crate::rt::Acc);

fn history(acc: &mut crate::rt::Acc, r: &mut Rng, steps: u64, thorough: bool) {
    let mut w = build(r, thorough);
    let owner = w.core.owner.clone();
    let n = w.universe.len();
    let limits: Vec<u32> = if thorough { (1..=31).collect() } else { vec![1, 2, 3, 7, 10, 30, 31] };
    for step in 0..steps {
        let op = r.below(100);
        let what;
        if op < 34 {
            // create pair in a random argument order
            let (i, j) = (r.idx(n), r.idx(n));
            let (a, b) = (w.universe[i].clone(), w.universe[j].clone());
            let set: BTreeSet<String> = [a.id(), b.id()].into_iter().collect();
            what = format!("create_pair [{}, {}]", a.id(), b.id());
            w.ops.push(what.clone());
            let pt = if r.chance(1, 3) { PairType::StableSwap { amp: 100 } } else { PairType::ConstantProduct };
            let res = create_pair(&mut w.app, &owner, &w.core.factory.clone(), [a.clone(), b.clone()], pool_fee([ONE18 / 1000, ONE18 / 500, 0]), pt);
            let registered = w.pairs.contains_key(&set);
            acc.count("check.R1.create-pair");
            match res {
                Ok(h) => {
                    acc.count("create_pair.ok");
                    if i == j || registered {
                        acc.violation("C19", "R1/duplicate-or-same-asset-pair-created", detail(&w, json!({"set": format!("{set:?}"), "step": what})));
                    }
                    if w.removed_pairs.contains(&set) {
                        acc.count("create_pair.ok.recreated-after-removal");
                    }
                    // give it liquidity so that routes can be simulated
                    let amt = [1_000_000_000u128, 1_000_000_000u128];
                    let mut funds = vec![];
                    for k in 0..2 {
                        match &h.assets[k] {
                            AssetRef::Native(d) => funds.push(coin(amt[k], d)),
                            AssetRef::Cw20(t) => cw20_allow(&mut w.app, t, &owner, &h.addr, amt[k]),
                        }
                    }
                    funds.sort_by(|x, y| x.denom.cmp(&y.denom));
                    let _ = exec(&mut w.app, &owner, &h.addr, &pm::ExecuteMsg::ProvideLiquidity { assets: [h.assets[0].asset(amt[0]), h.assets[1].asset(amt[1])], slippage_tolerance: None, receiver: None }, &funds);
                    w.pairs.insert(set, h.addr);
                }
                Err(_) => {
                    acc.count("create_pair.rejected");
                    if i != j && !registered && w.removed_pairs.contains(&set) {
                        let tag = if native_key_collision(&w, &a, &b) { "/key-collision-of-concatenated-denoms" } else { "" };
                        acc.violation("C19", &format!("R3/removed-pair-cannot-be-created-again{tag}"), detail(&w, json!({"set": format!("{set:?}"), "step": what})));
                    } else if i != j && !registered {
                        if native_key_collision(&w, &a, &b) {
                            acc.count("create_pair.rejected.key-collision");
                        } else {
                            acc.count("create_pair.rejected.unregistered-set");
                        }
                    }
                }
            }
        } else if op < 46 {
            if let Some(set) = w.pairs.keys().nth(r.idx(w.pairs.len().max(1))).cloned() {
                let mut infos: Vec<AssetInfo> = set.iter().map(|id| w.universe.iter().find(|a| a.id() == *id).unwrap().info()).collect();
                if r.chance(1, 2) {
                    infos.reverse();
                }
                what = format!("remove_pair {set:?}");
                w.ops.push(what.clone());
                let res = exec(&mut w.app, &owner, &w.core.factory.clone(), &fm::ExecuteMsg::RemovePair { asset_infos: [infos[0].clone(), infos[1].clone()] }, &[]);
                if res.is_ok() {
                    acc.count("remove_pair.ok");
                    w.pairs.remove(&set);
                    w.removed_pairs.insert(set);
                } else {
                    acc.violation("C19", "R3/registered-pair-cannot-be-removed", detail(&w, json!({"set": format!("{set:?}"), "step": what})));
                }
            } else {
                what = "remove_pair (none)".into();
            }
        } else if op < 58 {
            let mut idx: Vec<usize> = (0..n).collect();
            for k in 0..3 {
                let j = k + r.idx(n - k);
                idx.swap(k, j);
            }
            let (a, b, c) = (w.universe[idx[0]].clone(), w.universe[idx[1]].clone(), w.universe[idx[2]].clone());
            let set: BTreeSet<String> = [a.id(), b.id(), c.id()].into_iter().collect();
            what = format!("create_trio [{}, {}, {}]", a.id(), b.id(), c.id());
            w.ops.push(what.clone());
            let registered = w.trios.contains_key(&set);
            let res = create_trio(&mut w.app, &owner, &w.core.factory.clone(), [a, b, c], trio_fee([ONE18 / 1000, ONE18 / 500, 0]), 100);
            acc.count("check.R1.create-trio");
            match res {
                Ok(h) => {
                    acc.count("create_trio.ok");
                    if registered {
                        acc.violation("C19", "R1/duplicate-trio-created", detail(&w, json!({"set": format!("{set:?}"), "step": what})));
                    }
                    w.trios.insert(set, h.addr);
                }
                Err(_) => acc.count("create_trio.rejected"),
            }
        } else if op < 62 {
            if let Some(set) = w.trios.keys().nth(r.idx(w.trios.len().max(1))).cloned() {
                let mut infos: Vec<AssetInfo> = set.iter().map(|id| w.universe.iter().find(|a| a.id() == *id).unwrap().info()).collect();
                infos.rotate_left(r.idx(3));
                what = format!("remove_trio {set:?}");
                w.ops.push(what.clone());
                if exec(&mut w.app, &owner, &w.core.factory.clone(), &fm::ExecuteMsg::RemoveTrio { asset_infos: [infos[0].clone(), infos[1].clone(), infos[2].clone()] }, &[]).is_ok() {
                    acc.count("remove_trio.ok");
                    w.trios.remove(&set);
                }
            } else {
                what = "remove_trio (none)".into();
            }
        } else if op < 74 {
            let a = w.universe[r.idx(n)].clone();
            what = format!("create_vault {}", a.id());
            w.ops.push(what.clone());
            let registered = w.vaults.contains_key(&a.id());
            let res = create_vault(&mut w.app, &owner, &w.core.vault_factory.clone(), a.clone(), vault_fee([ONE18 / 1000, ONE18 / 1000, 0]));
            acc.count("check.R1.create-vault");
            match res {
                Ok(h) => {
                    acc.count("create_vault.ok");
                    if registered {
                        acc.violation("C19", "R1/duplicate-vault-created", detail(&w, json!({"asset": a.id(), "step": what})));
                    }
                    w.vaults.insert(a.id(), h.addr);
                }
                Err(_) => {
                    acc.count("create_vault.rejected");
                    if !registered {
                        acc.count("create_vault.rejected.unregistered");
                    }
                }
            }
        } else if op < 80 {
            if let Some(id) = w.vaults.keys().nth(r.idx(w.vaults.len().max(1))).cloned() {
                let info = w.universe.iter().find(|a| a.id() == id).unwrap().info();
                what = format!("remove_vault {id}");
                w.ops.push(what.clone());
                if exec(&mut w.app, &owner, &w.core.vault_factory.clone(), &vfm::ExecuteMsg::RemoveVault { asset_info: info }, &[]).is_ok() {
                    acc.count("remove_vault.ok");
                    w.vaults.remove(&id);
                }
            } else {
                what = "remove_vault (none)".into();
            }
        } else if op < 88 {
            // incentive for a native LP-like denom or for the LP token of a registered pair
            let (id, info) = if r.chance(1, 2) && !w.pairs.is_empty() {
                let addr = w.pairs.values().nth(r.idx(w.pairs.len())).unwrap().clone();
                let pi: PairInfo = query(&w.app, &addr, &pm::QueryMsg::Pair {}).unwrap();
                (AssetRef::from_info(&pi.liquidity_token).id(), pi.liquidity_token)
            } else {
                let a = w.universe[r.idx(n)].clone();
                (a.id(), a.info())
            };
            what = format!("create_incentive {id}");
            w.ops.push(what.clone());
            let registered = w.incentives.contains_key(&id);
            let res = exec(&mut w.app, &owner, &w.ifactory.clone(), &ifm::ExecuteMsg::CreateIncentive { lp_asset: info.clone() }, &[]);
            acc.count("check.R1.create-incentive");
            match res {
                Ok(_) => {
                    acc.count("create_incentive.ok");
                    if registered {
                        acc.violation("C19", "R1/duplicate-incentive-created", detail(&w, json!({"lp": id, "step": what})));
                    }
                    let a: Option<Addr> = query(&w.app, &w.ifactory, &ifm::QueryMsg::Incentive { lp_asset: info }).unwrap_or(None);
                    if let Some(a) = a {
                        w.incentives.insert(id, a);
                    }
                }
                Err(_) => acc.count("create_incentive.rejected"),
            }
        } else {
            // router: add a route (valid or with an unregistered hop), then execute stored routes
            let (i, j, k) = (r.idx(n), r.idx(n), r.idx(n));
            if i == j || j == k || i == k {
                continue;
            }
            let two_hops = r.chance(1, 2);
            let ops: Vec<rm::SwapOperation> = if two_hops {
                vec![rm::SwapOperation::TerraSwap { offer_asset_info: w.universe[i].info(), ask_asset_info: w.universe[j].info() }, rm::SwapOperation::TerraSwap { offer_asset_info: w.universe[j].info(), ask_asset_info: w.universe[k].info() }]
            } else {
                vec![rm::SwapOperation::TerraSwap { offer_asset_info: w.universe[i].info(), ask_asset_info: w.universe[k].info() }]
            };
            let hops_registered = ops.iter().all(|o| {
                let rm::SwapOperation::TerraSwap { offer_asset_info, ask_asset_info } = o;
                w.pairs.contains_key(&set_of(&[offer_asset_info.clone(), ask_asset_info.clone()]))
            });
            what = format!("add_route {}->{} ({} hops, all hops registered: {hops_registered})", w.universe[i].id(), w.universe[k].id(), ops.len());
            w.ops.push(what.clone());
            let res = exec(&mut w.app, &owner, &w.core.router.clone(), &rm::ExecuteMsg::AddSwapRoutes { swap_routes: vec![rm::SwapRoute { offer_asset_info: w.universe[i].info(), ask_asset_info: w.universe[k].info(), swap_operations: ops.clone() }] }, &[]);
            acc.count("check.R5.add-route");
            match res {
                Ok(_) => {
                    acc.count("add_route.ok");
                    if !hops_registered {
                        acc.violation("C19", "R5/route-stored-with-unregistered-hop", detail(&w, json!({"step": what})));
                    }
                    w.routes.push((i, k, ops));
                }
                Err(_) => {
                    acc.count("add_route.rejected");
                    if !hops_registered {
                        acc.count("add_route.rejected.unregistered-hop");
                    }
                }
            }
        }
        // execute one stored route: it must run iff all of its hops are (still) registered, through the registered pairs only
        if !w.routes.is_empty() && r.chance(1, 3) {
            let (i, _k, ops) = w.routes[r.idx(w.routes.len())].clone();
            let hops_registered = ops.iter().all(|o| {
                let rm::SwapOperation::TerraSwap { offer_asset_info, ask_asset_info } = o;
                w.pairs.contains_key(&set_of(&[offer_asset_info.clone(), ask_asset_info.clone()]))
            });
            let amount = 10_000u128;
            let router = w.core.router.clone();
            let res = match &w.universe[i] {
                AssetRef::Native(d) => exec(&mut w.app, &owner, &router, &rm::ExecuteMsg::ExecuteSwapOperations { operations: ops.clone(), minimum_receive: None, to: None, max_spread: Some(dec(ONE18 / 2)) }, &[coin(amount, d)]),
                AssetRef::Cw20(t) => exec(
                    &mut w.app,
                    &owner,
                    t,
                    &cw20::Cw20ExecuteMsg::Send { contract: router.to_string(), amount: Uint128::new(amount), msg: cosmwasm_std::to_json_binary(&rm::Cw20HookMsg::ExecuteSwapOperations { operations: ops.clone(), minimum_receive: None, to: None, max_spread: Some(dec(ONE18 / 2)) }).unwrap() },
                    &[],
                ),
            };
            acc.count("check.R5.execute-route");
            match res {
                Ok(resp) => {
                    acc.count("execute_route.ok");
                    if !hops_registered {
                        acc.violation("C19", "R5/route-executed-through-unregistered-pair", detail(&w, json!({"route": format!("{ops:?}")})));
                    }
                    // every swap event must come from a currently registered pair
                    for e in &resp.events {
                        if e.ty == "wasm" && e.attributes.iter().any(|a| a.key == "action" && a.value == "swap") {
                            let ca = e.attributes.iter().find(|a| a.key == "_contract_addr").map(|a| a.value.clone()).unwrap_or_default();
                            if !w.pairs.values().any(|p| p.as_str() == ca) {
                                acc.violation("C19", "R5/hop-executed-by-unregistered-pair-contract", detail(&w, json!({"contract": ca})));
                            }
                        }
                    }
                }
                Err(_) => {
                    acc.count("execute_route.rejected");
                    if !hops_registered {
                        acc.count("execute_route.rejected.pair-removed");
                    }
                }
            }
        }
        let lim: Vec<u32> = if step % 5 == 4 { limits.clone() } else { vec![*r.pick(&limits)] };
        check_registry(&mut Acc2(acc), &w, &lim, "after step");
        if r.chance(1, 4) {
            let l = *r.pick(&[1u32, 2, 3, 5]);
            probe_paging_with_removed_cursor(acc, &mut w, l, "after step");
        }
        acc.evals += 1;
        acc.class_only(&[w.pairs.len() as u64, w.trios.len() as u64, w.vaults.len() as u64, w.incentives.len() as u64, op / 10]);
    }
    let k = w.ops.len().saturating_sub(8);
    acc.sample(|| json!({"pairs": w.pairs.len(), "trios": w.trios.len(), "vaults": w.vaults.len(), "incentives": w.incentives.len(), "tail": w.ops[k..].to_vec()}));
}

pub fn run(ctx: &Ctx) -> (CheckMeta, crate::rt::Acc) {
    let n = ctx.tier.pick(30, 1000);
    let steps = ctx.tier.pick(120, 300);
    let thorough = ctx.tier == Tier::Thorough;
    let ph = hash_str("C19");
    let total = run_shards(ctx, 16, |sh, acc| {
        for h in 0..ctx.scaled(n) {
            if let Some(rp) = &ctx.replay {
                if rp.history != h {
                    continue;
                }
            }
            acc.history = h;
            let mut r = Rng::from_parts(&[ctx.seed, ph, sh, h]);
            history(acc, &mut r, steps, thorough);
        }
    });
    let meta = CheckMeta {
        level: "exploration",
        rule: "create / remove / re-create sequences through the real pool factory (pairs and trios), vault factory and incentive factory over a universe of 8-12 assets (plain, ibc-style and factory-style native denoms with decimals 6/8/18, three cw20 tokens, and a prefix-related family abc/defg/abcd/efg) in random argument order; router routes of 1-2 hops added and executed. After every step: R1 at most one child per unordered asset set, R2 lookups in every permutation return the entry whose own Pair{}/Trio{}/Config{} reports the same address, assets, decimals, type and LP token, R3 removed entries vanish and can be created again, R4 paging with page sizes {1,2,3,7,10,30,31} (thorough: all of 1..31) and follow-up cursors returns every entry exactly once, R5 routes are only stored when every hop is a registered pair and execute only through registered pairs (a route over a removed pair fails). distinct = distinct (registry sizes, op class) tuples.".to_string(),
        assumptions: vec!["a rejected creation of a never-registered set is counted, not judged (the statement bounds the registry, it does not promise admission); only re-creation after removal must succeed".into()],
        obligations: vec!["check.R2.pairs".into(), "check.R2.trios".into(), "check.R2.vaults".into(), "check.R2.incentives".into(), "check.R4.pairs-paging".into(), "check.R3.removed-pair-gone".into(), "create_pair.ok.recreated-after-removal".into(), "remove_pair.ok".into(), "create_trio.ok".into(), "create_vault.ok".into(), "create_incentive.ok".into(), "add_route.ok".into(), "add_route.rejected.unregistered-hop".into(), "execute_route.ok".into(), "execute_route.rejected.pair-removed".into()],
    };
    (meta, total)
}
