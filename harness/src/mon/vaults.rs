//! Shared vault world + monitors: C05 (share price), C06 (flash loans), C07 (vault fee ledger),
//! C14 (Share query == withdrawal payout).

use crate::adversary::*;
use crate::rng::Rng;
use crate::rt::Acc;
use crate::wide::*;
use crate::world::*;
use cosmwasm_std::{coin, to_json_binary, Addr, BankMsg, CosmosMsg, Empty, Uint128, WasmMsg};
use cw_multi_test::{App, AppResponse};
use serde_json::{json, Value};
use white_whale_std::pool_network::asset::Asset;
use white_whale_std::vault_network::vault as vm;

pub const FUNDS: u128 = 1u128 << 120;

#[derive(Clone, Debug, Default)]
pub struct VObs {
    pub bal: u128,
    pub pend: u128,
    pub alltime: u128,
    pub burned: u128,
    pub s: u128,
    pub lp_locked: u128,
    pub supply: u128,
    pub counter: u32,
}

pub struct VaultWorld {
    pub app: App,
    pub owner: Addr,
    pub users: Vec<Addr>,
    pub collector: Addr,
    pub vfactory: Addr,
    pub vrouter: Addr,
    pub vaults: Vec<VaultHandle>,
    pub fees: Vec<[u128; 3]>,
    pub borrower: Addr,
    pub faucet: Addr,
    pub tokens: Vec<Addr>,
    pub charged: Vec<u128>,
    pub sent: Vec<u128>,
    pub burned: Vec<u128>,
    pub first_done: Vec<bool>,
    pub ops: Vec<String>,
}

impl VaultWorld {
    pub fn log(&mut self, s: String) {
        if self.ops.len() >= 300 {
            self.ops.remove(0);
        }
        self.ops.push(s);
    }
    pub fn tail(&self, n: usize) -> Vec<String> {
        let k = self.ops.len().saturating_sub(n);
        self.ops[k..].to_vec()
    }
    pub fn observe(&self, v: usize) -> Result<VObs, String> {
        let h = &self.vaults[v];
        let app = &self.app;
        let pf: vm::ProtocolFeesResponse = query(app, &h.addr, &vm::QueryMsg::ProtocolFees { all_time: false })?;
        let af: vm::ProtocolFeesResponse = query(app, &h.addr, &vm::QueryMsg::ProtocolFees { all_time: true })?;
        let bf: vm::ProtocolFeesResponse = query(app, &h.addr, &vm::QueryMsg::BurnedFees {})?;
        let counter: u32 = raw_item(app, &h.addr, b"loan_counter").and_then(|b| serde_json::from_slice(&b).ok()).unwrap_or(u32::MAX);
        Ok(VObs {
            bal: h.asset.balance(app, &h.addr),
            pend: pf.fees.amount.u128(),
            alltime: af.fees.amount.u128(),
            burned: bf.fees.amount.u128(),
            s: supply_cw20(app, &h.lp),
            lp_locked: bal_cw20(app, &h.lp, &h.addr),
            supply: h.asset.supply(app),
            counter,
        })
    }
    pub fn quote(&self, v: usize, amount: u128) -> Result<vm::PaybackAmountResponse, String> {
        query(&self.app, &self.vaults[v].addr, &vm::QueryMsg::GetPaybackAmount { amount: Uint128::new(amount) })
    }
    pub fn deposit(&mut self, user: &Addr, v: usize, amount: u128) -> Result<AppResponse, String> {
        let h = &self.vaults[v];
        let (va, asset) = (h.addr.clone(), h.asset.clone());
        exec(&mut self.app, user, &va, &vm::ExecuteMsg::Deposit { amount: Uint128::new(amount) }, &asset.funds(amount))
    }
    /// for cw20 vaults the allowance must equal the amount exactly: set it in separate transactions
    pub fn prepare_allowance(&mut self, user: &Addr, v: usize, amount: u128) {
        if let AssetRef::Cw20(t) = self.vaults[v].asset.clone() {
            let va = self.vaults[v].addr.clone();
            let cur: cw20::AllowanceResponse = query(&self.app, &t, &cw20::Cw20QueryMsg::Allowance { owner: user.to_string(), spender: va.to_string() }).unwrap();
            if !cur.allowance.is_zero() {
                let _ = exec(&mut self.app, user, &t, &cw20::Cw20ExecuteMsg::DecreaseAllowance { spender: va.to_string(), amount: cur.allowance, expires: None }, &[]);
            }
            if amount > 0 {
                cw20_allow(&mut self.app, &t, user, &va, amount);
            }
        }
    }
    pub fn withdraw(&mut self, user: &Addr, v: usize, lp: u128) -> Result<AppResponse, String> {
        let (lpt, va) = (self.vaults[v].lp.clone(), self.vaults[v].addr.clone());
        cw20_send(&mut self.app, &lpt, user, &va, lp, &vm::Cw20HookMsg::Withdraw {})
    }
    pub fn collect(&mut self, user: &Addr, v: usize) -> Result<AppResponse, String> {
        let va = self.vaults[v].addr.clone();
        exec(&mut self.app, user, &va, &vm::ExecuteMsg::CollectProtocolFees {}, &[])
    }
    pub fn set_fees(&mut self, v: usize, t: [u128; 3]) -> Result<AppResponse, String> {
        let (o, f, va) = (self.owner.clone(), self.vfactory.clone(), self.vaults[v].addr.clone());
        exec(
            &mut self.app,
            &o,
            &f,
            &white_whale_std::vault_network::vault_factory::ExecuteMsg::UpdateVaultConfig {
                vault_addr: va.to_string(),
                params: vm::UpdateConfigParams { flash_loan_enabled: None, deposit_enabled: None, withdraw_enabled: None, new_owner: None, new_vault_fees: Some(vault_fee(t)), new_fee_collector_addr: None },
            },
            &[],
        )
    }
    pub fn loan_direct(&mut self, user: &Addr, v: usize, amount: u128, script: Vec<Step>) -> Result<AppResponse, String> {
        let (b, va) = (self.borrower.clone(), self.vaults[v].addr.clone());
        exec(&mut self.app, user, &b, &BorrowerExec::Start { vault: va.to_string(), amount: Uint128::new(amount), script }, &[])
    }
    pub fn loan_router(&mut self, user: &Addr, v: usize, amount: u128, payload: Vec<CosmosMsg>) -> Result<AppResponse, String> {
        let r = self.vrouter.clone();
        let a = self.vaults[v].asset.asset(amount);
        exec(&mut self.app, user, &r, &white_whale_std::vault_network::vault_router::ExecuteMsg::FlashLoan { assets: vec![a], msgs: payload }, &[])
    }
}

pub fn build_vault_world(fees: [[u128; 3]; 2]) -> VaultWorld {
    let owner = Addr::unchecked("owner");
    let users: Vec<Addr> = vec![Addr::unchecked("user0"), Addr::unchecked("user1"), Addr::unchecked("user2"), Addr::unchecked("attacker")];
    let mut balances = vec![];
    for u in users.iter().chain(std::iter::once(&owner)) {
        balances.push((u.clone(), vec![coin(FUNDS, "uluna"), coin(FUNDS, "uzzz")]));
    }
    let mut app = new_app(balances);
    let codes = store_all(&mut app);
    let collector = inst(&mut app, codes.collector, &owner, &white_whale_std::fee_collector::InstantiateMsg {}, &[], "fee_collector", None).unwrap();
    let vfactory = inst(
        &mut app,
        codes.vault_factory,
        &owner,
        &white_whale_std::vault_network::vault_factory::InstantiateMsg { owner: owner.to_string(), vault_id: codes.vault, token_id: codes.token, fee_collector_addr: collector.to_string() },
        &[],
        "vault_factory",
        None,
    )
    .unwrap();
    let vrouter = inst(
        &mut app,
        codes.vault_router,
        &owner,
        &white_whale_std::vault_network::vault_router::InstantiateMsg { owner: owner.to_string(), vault_factory_addr: vfactory.to_string() },
        &[],
        "vault_router",
        None,
    )
    .unwrap();
    let bcode = app.store_code(borrower_contract());
    let fcode = app.store_code(faucet_contract());
    let borrower = inst(&mut app, bcode, &owner, &Empty {}, &[], "borrower", None).unwrap();
    let faucet = inst(&mut app, fcode, &owner, &Empty {}, &[], "faucet", None).unwrap();
    let mut holders: Vec<(Addr, u128)> = users.iter().chain(std::iter::once(&owner)).map(|u| (u.clone(), FUNDS)).collect();
    holders.push((borrower.clone(), FUNDS));
    holders.push((faucet.clone(), FUNDS));
    let token = create_cw20(&mut app, &codes, &owner, "VTOK", 6, &holders, None);
    bank_send(&mut app, &owner, &borrower, FUNDS / 4, "uluna").unwrap();
    bank_send(&mut app, &owner, &faucet, FUNDS / 4, "uluna").unwrap();
    let v0 = create_vault(&mut app, &owner, &vfactory, AssetRef::Native("uluna".into()), vault_fee(fees[0])).expect("native vault");
    let v1 = create_vault(&mut app, &owner, &vfactory, AssetRef::Cw20(token.clone()), vault_fee(fees[1])).expect("cw20 vault");
    let tokens = vec![token, v0.lp.clone(), v1.lp.clone()];
    VaultWorld {
        app,
        owner,
        users,
        collector,
        vfactory,
        vrouter,
        vaults: vec![v0, v1],
        fees: vec![fees[0], fees[1]],
        borrower,
        faucet,
        tokens,
        charged: vec![0, 0],
        sent: vec![0, 0],
        burned: vec![0, 0],
        first_done: vec![false, false],
        ops: vec![],
    }
}

pub fn vdetail(wd: &VaultWorld, v: usize, extra: Value) -> Value {
    json!({"vault": v, "asset": wd.vaults[v].asset.id(), "fees_protocol_flash_burn": [wd.fees[v][0].to_string(), wd.fees[v][1].to_string(), wd.fees[v][2].to_string()], "last_ops": wd.tail(20), "extra": extra})
}

/// V1 + locked liquidity + C07 ledger after any committed step on vault v.
/// `tag` discriminates known preconditions (e.g. nested same-vault loans) in the signature.
pub fn check_vault_step(acc: &mut Acc, wd: &VaultWorld, v: usize, pre: &VObs, post: &VObs, what: &str, tag: &str) {
    acc.count("check.V1");
    if pre.s > 0 && post.s > 0 {
        let backed_pre = w(pre.bal) - w(pre.pend.min(pre.bal));
        if post.pend > post.bal {
            acc.violation("C05", &format!("V1/pending-exceeds-balance{tag}"), vdetail(wd, v, json!({"pre": format!("{pre:?}"), "post": format!("{post:?}"), "step": what})));
        } else {
            let backed_post = w(post.bal) - w(post.pend);
            if backed_post * w(pre.s) < backed_pre * w(post.s) {
                let op = what.split(' ').next().unwrap_or("");
                acc.violation("C05", &format!("V1/share-price-decreased/{op}{tag}"), vdetail(wd, v, json!({"pre": format!("{pre:?}"), "post": format!("{post:?}"), "step": what})));
            } else if !backed_pre.is_zero() {
                acc.slack("V1.rel", diff_f64(&(backed_post * w(pre.s)), &(backed_pre * w(post.s))) / f64_of(&(backed_pre * w(post.s))).max(1.0), || what.to_string());
            }
        }
    }
    if wd.first_done[v] {
        acc.count("check.V2.locked");
        if post.lp_locked < 1000 {
            acc.violation("C05", "V2/locked-minimum-liquidity-left-the-vault", vdetail(wd, v, json!({"post": format!("{post:?}"), "step": what})));
        }
    }
    // C07 ledger
    acc.count("check.A1.vault");
    let want = wd.charged[v].wrapping_sub(wd.sent[v]);
    if post.pend != want {
        let class = if post.pend < want { "ledger<charged-sent" } else { "ledger>charged-sent" };
        acc.violation("C07", &format!("A1/vault/{class}"), vdetail(wd, v, json!({"ledger": post.pend.to_string(), "charged": wd.charged[v].to_string(), "sent": wd.sent[v].to_string(), "step": what})));
    }
    if post.alltime != wd.charged[v] {
        acc.violation("C07", "A1/vault/all-time!=sum-of-charges", vdetail(wd, v, json!({"alltime": post.alltime.to_string(), "charged": wd.charged[v].to_string(), "step": what})));
    }
    if post.burned != wd.burned[v] {
        acc.violation("C07", "A1/vault/burned-counter!=sum-of-burns", vdetail(wd, v, json!({"burned": post.burned.to_string(), "model": wd.burned[v].to_string(), "step": what})));
    }
    if post.alltime < pre.alltime || post.burned < pre.burned {
        acc.violation("C07", "A1/all-time-counter-decreased", vdetail(wd, v, json!({"step": what})));
    }
}

pub fn monitored_deposit(acc: &mut Acc, wd: &mut VaultWorld, user: usize, v: usize, amount: u128) -> bool {
    let usr = wd.users[user].clone();
    wd.prepare_allowance(&usr, v, amount);
    let Ok(pre) = wd.observe(v) else { return false };
    let before = snap(&wd.app);
    let what = format!("deposit user{user} vault{v} amount={amount}");
    wd.log(what.clone());
    let lp_pre = bal_cw20(&wd.app, &wd.vaults[v].lp, &usr);
    let ub_pre = wd.vaults[v].asset.balance(&wd.app, &usr);
    match wd.deposit(&usr, v, amount) {
        Err(_) => {
            acc.count("deposit.rejected");
            check_unchanged(acc, wd, &before, &what, "C05");
            false
        }
        Ok(_) => {
            acc.count("deposit.ok");
            let Ok(post) = wd.observe(v) else { return true };
            let minted = bal_cw20(&wd.app, &wd.vaults[v].lp, &usr) - lp_pre;
            let ub_post = wd.vaults[v].asset.balance(&wd.app, &usr);
            acc.count("check.V2.deposit");
            if ub_pre - ub_post != amount || post.bal - pre.bal != amount {
                acc.violation("C05", "V2/deposit-amount-not-taken", vdetail(wd, v, json!({"step": what})));
            }
            if pre.s == 0 {
                wd.first_done[v] = true;
                acc.count("deposit.first");
                if minted + 1000 != amount || post.lp_locked != 1000 || post.s != amount {
                    acc.violation("C05", "V2/first-deposit-mint", vdetail(wd, v, json!({"minted": minted.to_string(), "post": format!("{post:?}"), "step": what})));
                }
            } else {
                if post.s - pre.s != minted {
                    acc.violation("C05", "V2/minted!=supply-delta", vdetail(wd, v, json!({"step": what})));
                }
                // minted * (bal - pend) <= amount * S   (pre-deposit backing)
                let backing = w(pre.bal) - w(pre.pend.min(pre.bal));
                if w(minted) * backing > w(amount) * w(pre.s) {
                    acc.violation("C05", "V2/deposit-minted-more-than-pro-rata", vdetail(wd, v, json!({"minted": minted.to_string(), "pre": format!("{pre:?}"), "step": what})));
                }
            }
            check_vault_step(acc, wd, v, &pre, &post, &what, "");
            true
        }
    }
}

pub fn monitored_withdraw(acc: &mut Acc, wd: &mut VaultWorld, user: usize, v: usize, lp: u128) -> bool {
    let usr = wd.users[user].clone();
    let Ok(pre) = wd.observe(v) else { return false };
    let before = snap(&wd.app);
    let what = format!("withdraw user{user} vault{v} lp={lp}");
    wd.log(what.clone());
    let share: Result<Uint128, String> = query(&wd.app, &wd.vaults[v].addr, &vm::QueryMsg::Share { amount: Uint128::new(lp) });
    let ub_pre = wd.vaults[v].asset.balance(&wd.app, &usr);
    match wd.withdraw(&usr, v, lp) {
        Err(_) => {
            acc.count("withdraw.rejected");
            check_unchanged(acc, wd, &before, &what, "C05");
            false
        }
        Ok(_) => {
            acc.count("withdraw.ok");
            let Ok(post) = wd.observe(v) else { return true };
            let paid = wd.vaults[v].asset.balance(&wd.app, &usr) - ub_pre;
            acc.count("check.V2.withdraw");
            let backing = w(pre.bal) - w(pre.pend.min(pre.bal));
            if w(paid) * w(pre.s) > w(lp) * backing {
                acc.violation("C05", "V2/withdraw-paid-more-than-pro-rata", vdetail(wd, v, json!({"paid": paid.to_string(), "pre": format!("{pre:?}"), "step": what})));
            }
            if pre.s - post.s != lp || pre.bal - post.bal != paid {
                acc.violation("C05", "V2/withdraw-accounting", vdetail(wd, v, json!({"step": what})));
            }
            acc.count("check.C14.share");
            match share {
                Ok(s) => {
                    if s.u128() != paid {
                        acc.violation("C14", "Q6/vault-share-query!=withdrawal-payout", vdetail(wd, v, json!({"share": s.to_string(), "paid": paid.to_string(), "step": what})));
                    }
                }
                Err(e) => acc.violation("C14", "Q6/vault-share-query-failed-but-withdraw-succeeded", vdetail(wd, v, json!({"err": e, "step": what}))),
            }
            check_vault_step(acc, wd, v, &pre, &post, &what, "");
            true
        }
    }
}

pub fn monitored_collect(acc: &mut Acc, wd: &mut VaultWorld, user: usize, v: usize) {
    let usr = wd.users[user].clone();
    let Ok(pre) = wd.observe(v) else { return };
    let bal_pre = all_balances(&wd.app, &wd.tokens);
    let what = format!("collect user{user} vault{v} pending={}", pre.pend);
    wd.log(what.clone());
    match wd.collect(&usr, v) {
        Err(_) => acc.count("vcollect.rejected"),
        Ok(_) => {
            acc.count("vcollect.ok");
            acc.count(if pre.pend == 0 { "vcollect.pending=0" } else if pre.pend <= 1000 { "vcollect.pending<=1000" } else { "vcollect.pending>1000" });
            let Ok(post) = wd.observe(v) else { return };
            let bal_post = all_balances(&wd.app, &wd.tokens);
            acc.count("check.A2.vault");
            let id = wd.vaults[v].asset.id();
            let mut expect: Vec<(String, String, i128)> = vec![];
            if pre.pend > 0 {
                expect.push((wd.vaults[v].addr.to_string(), id.clone(), -(pre.pend as i128)));
                expect.push((wd.collector.to_string(), id.clone(), pre.pend as i128));
            }
            let mut got: Vec<(String, String, i128)> = balance_diff(&bal_pre, &bal_post).iter().map(|(a, s, b, c)| (a.clone(), s.clone(), *c as i128 - *b as i128)).collect();
            got.sort();
            expect.sort();
            let d = got.iter().find(|(a, s, _)| *a == wd.collector.to_string() && *s == id).map(|x| x.2).unwrap_or(0);
            if d > 0 {
                wd.sent[v] += d as u128;
            }
            if got != expect {
                acc.violation("C07", "A2/vault/collect/unexpected-balance-changes", vdetail(wd, v, json!({"expected": format!("{expect:?}"), "got": format!("{got:?}"), "step": what})));
            }
            if post.s != pre.s || (post.bal as i128 - post.pend as i128) != (pre.bal as i128 - pre.pend as i128) {
                acc.violation("C07", "A2/vault/collect/lp-backing-changed", vdetail(wd, v, json!({"pre": format!("{pre:?}"), "post": format!("{post:?}"), "step": what})));
            }
            check_vault_step(acc, wd, v, &pre, &post, &what, "");
        }
    }
}

pub fn check_unchanged(acc: &mut Acc, wd: &VaultWorld, before: &Snap, what: &str, prop: &str) {
    acc.count("check.U1");
    let after = snap(&wd.app);
    if !same_state(before, &after) {
        acc.violation(prop, "U1/rejected-call-changed-state", json!({"changed_keys": snap_diff(before, &after), "step": what, "last_ops": wd.tail(10)}));
    }
}

// ------------------------------------------------------------------------------------------------
// loan transactions

#[derive(Clone, Debug)]
pub struct LoanEv {
    pub vault: usize,
    pub amount: u128,
    pub protocol: u128,
    pub flash: u128,
    pub burn: u128,
    pub nested_same_vault: bool,
}

pub struct TxFacts {
    pub loans: Vec<LoanEv>,
    pub withdrawn: Vec<u128>,
    pub collected: Vec<u128>,
    pub deposited: Vec<u128>,
    pub mint_during_loan: bool,
    pub unmatched: bool,
}

/// derive the committed facts of a transaction from its (committed-only) event list
pub fn tx_facts(wd: &VaultWorld, resp: &AppResponse) -> TxFacts {
    let nv = wd.vaults.len();
    let mut f = TxFacts { loans: vec![], withdrawn: vec![0; nv], collected: vec![0; nv], deposited: vec![0; nv], mint_during_loan: false, unmatched: false };
    let mut open: Vec<Vec<(u128, bool)>> = vec![vec![]; nv]; // per vault: stack of (amount, had_nested_same)
    for e in &resp.events {
        if e.ty != "wasm" {
            continue;
        }
        let get = |k: &str| e.attributes.iter().find(|a| a.key == k).map(|a| a.value.clone());
        let Some(ca) = get("_contract_addr") else { continue };
        if let Some(v) = wd.vaults.iter().position(|h| h.addr.as_str() == ca) {
            match get("method").as_deref() {
                Some("flash_loan") => {
                    let amt = get("amount").and_then(|s| s.parse().ok()).unwrap_or(0);
                    if let Some(top) = open[v].last_mut() {
                        top.1 = true;
                    }
                    open[v].push((amt, false));
                }
                Some("after_trade") => {
                    let p = |k: &str| get(k).and_then(|s| s.parse::<u128>().ok()).unwrap_or(u128::MAX);
                    match open[v].pop() {
                        Some((amt, nested)) => {
                            let is_inner = !open[v].is_empty();
                            f.loans.push(LoanEv { vault: v, amount: amt, protocol: p("protocol_fee"), flash: p("flash_loan_fee"), burn: p("burn_fee"), nested_same_vault: nested || is_inner });
                        }
                        None => f.unmatched = true,
                    }
                }
                Some("withdraw") => f.withdrawn[v] += get("asset_amount").and_then(|s| s.parse::<u128>().ok()).unwrap_or(0),
                Some("collect_protocol_fees") => f.collected[v] += get("amount").and_then(|s| s.parse::<u128>().ok()).unwrap_or(0),
                Some("deposit") => f.deposited[v] += get("amount").and_then(|s| s.parse::<u128>().ok()).unwrap_or(0),
                _ => {}
            }
        } else if let Some(v) = wd.vaults.iter().position(|h| h.lp.as_str() == ca) {
            if get("action").as_deref() == Some("mint") && !open[v].is_empty() {
                f.mint_during_loan = true;
            }
        }
    }
    if open.iter().any(|s| !s.is_empty()) {
        f.unmatched = true;
    }
    f
}

pub enum How {
    Direct(Vec<Step>),
    Router(Vec<CosmosMsg>),
}

pub struct LoanOutcome {
    pub ok: bool,
    pub err: String,
    /// per vault with at least one completed loan: what the vault gained beyond the protocol + flash-loan fees due
    pub excess: Vec<(usize, i128)>,
}

/// Runs one top-level loan transaction on vault `v` and applies the C06 / C05 / C07 monitors to it.
pub fn monitored_loan(acc: &mut Acc, wd: &mut VaultWorld, user: usize, v: usize, amount: u128, how: How, label: &str) -> LoanOutcome {
    let usr = wd.users[user].clone();
    let nv = wd.vaults.len();
    let pre: Vec<VObs> = (0..nv).map(|i| wd.observe(i).unwrap_or_default()).collect();
    let before = snap(&wd.app);
    let what = format!("loan user{user} vault{v} amount={amount} {label}");
    wd.log(what.clone());
    let router_pre: Vec<u128> = (0..nv).map(|i| wd.vaults[i].asset.balance(&wd.app, &wd.vrouter)).collect();
    let collector_pre: Vec<u128> = (0..nv).map(|i| wd.vaults[i].asset.balance(&wd.app, &wd.collector)).collect();
    let quote = wd.quote(v, amount).ok();
    let user_pre = wd.vaults[v].asset.balance(&wd.app, &usr);
    let via_router = matches!(how, How::Router(_));
    let res = match how {
        How::Direct(script) => wd.loan_direct(&usr, v, amount, script),
        How::Router(payload) => wd.loan_router(&usr, v, amount, payload),
    };
    match res {
        Err(e) => {
            acc.count("loan.reverted");
            if e.contains("TRAP") {
                acc.count("loan.reverted.trap");
            }
            check_unchanged(acc, wd, &before, &what, "C06");
            LoanOutcome { ok: false, err: e, excess: vec![] }
        }
        Ok(resp) => {
            acc.count("loan.ok");
            let facts = tx_facts(wd, &resp);
            if facts.unmatched {
                acc.violation("C06", "L0/flash_loan-without-matching-after_trade-in-committed-tx", vdetail(wd, v, json!({"step": what})));
            }
            if facts.loans.len() > 1 {
                acc.count("loan.ok.with-nested-loans");
            }
            let any_nested_same = facts.loans.iter().any(|l| l.nested_same_vault);
            let mut excess: Vec<(usize, i128)> = vec![];
            for i in 0..nv {
                let Ok(post) = wd.observe(i) else { continue };
                let loans_i: Vec<&LoanEv> = facts.loans.iter().filter(|l| l.vault == i).collect();
                let nested_i = loans_i.iter().any(|l| l.nested_same_vault);
                let tag = if nested_i { "/nested-same-vault-loan" } else { "" };
                // fee exactness per loan
                let mut sum_p = 0u128;
                let mut sum_f = 0u128;
                let mut sum_b = 0u128;
                for l in &loans_i {
                    acc.count("check.L2.fee-exactness");
                    let want = [mul_share_floor(w(l.amount), wd.fees[i][0]), mul_share_floor(w(l.amount), wd.fees[i][1]), mul_share_floor(w(l.amount), wd.fees[i][2])];
                    if w(l.protocol) != want[0] || w(l.flash) != want[1] || w(l.burn) != want[2] {
                        acc.violation("C06", "L2/fee!=floor(share*loan)", vdetail(wd, i, json!({"loan": format!("{l:?}"), "want": [want[0].to_string(), want[1].to_string(), want[2].to_string()], "step": what})));
                    }
                    sum_p += l.protocol;
                    sum_f += l.flash;
                    sum_b += l.burn;
                }
                // ledger model
                wd.charged[i] += sum_p;
                wd.burned[i] += sum_b;
                // what a collection inside the transaction reports must be what the collector really received
                // (two vaults never share an asset in these worlds, so the collector's delta is attributable)
                let received = wd.vaults[i].asset.balance(&wd.app, &wd.collector).wrapping_sub(collector_pre[i]);
                if (0..nv).filter(|j| wd.vaults[*j].asset == wd.vaults[i].asset).count() == 1 {
                    acc.count("check.A2.vault.collection-inside-tx");
                    if received != facts.collected[i] {
                        acc.violation("C07", "A2/vault/collected-amount-reported!=received-by-collector", vdetail(wd, i, json!({"reported": facts.collected[i].to_string(), "received": received.to_string(), "step": what})));
                    }
                    wd.sent[i] += received;
                } else {
                    wd.sent[i] += facts.collected[i];
                }
                if !loans_i.is_empty() {
                    acc.count("check.L1.vault-gain");
                    // Δbal + W + C - Dep >= Σ(p+f)
                    let lhs = post.bal as i128 - pre[i].bal as i128 + facts.withdrawn[i] as i128 + facts.collected[i] as i128 - facts.deposited[i] as i128;
                    let need = (sum_p + sum_f) as i128;
                    if lhs < need {
                        acc.violation("C06", &format!("L1/vault-gained-less-than-fees{tag}"), vdetail(wd, i, json!({"gain": lhs.to_string(), "fees_due": need.to_string(), "loans": format!("{:?}", loans_i), "pre": format!("{:?}", pre[i]), "post": format!("{post:?}"), "step": what})));
                    } else {
                        acc.slack("L1.gain-minus-fees", (lhs - need) as f64, || what.clone());
                    }
                    excess.push((i, lhs - need));
                    acc.count("check.L3.burn-destroyed");
                    if pre[i].supply.wrapping_sub(post.supply) != sum_b {
                        acc.violation("C06", "L3/asset-supply-drop!=burn-fees", vdetail(wd, i, json!({"supply_pre": pre[i].supply.to_string(), "supply_post": post.supply.to_string(), "burn_due": sum_b.to_string(), "step": what})));
                    }
                    acc.count("check.L4.pending-delta");
                    if post.pend as i128 - pre[i].pend as i128 + facts.collected[i] as i128 != sum_p as i128 {
                        acc.violation("C06", "L4/pending-delta!=protocol-fees", vdetail(wd, i, json!({"pre": format!("{:?}", pre[i]), "post": format!("{post:?}"), "sum_p": sum_p.to_string(), "step": what})));
                    }
                }
                acc.count("check.L5.counter-zero");
                if post.counter != 0 {
                    acc.violation("C06", "L5/loan-counter-not-zero-after-tx", vdetail(wd, i, json!({"counter": post.counter, "step": what})));
                }
                check_vault_step(acc, wd, i, &pre[i], &post, &what, tag);
            }
            acc.count("check.L6.no-mint-during-loan");
            if facts.mint_during_loan {
                acc.violation("C06", "L6/vault-shares-minted-while-loan-outstanding", vdetail(wd, v, json!({"step": what})));
            }
            // router keeps nothing
            acc.count("check.L7.router-keeps-nothing");
            for i in 0..nv {
                let now = wd.vaults[i].asset.balance(&wd.app, &wd.vrouter);
                if now != router_pre[i] {
                    acc.violation("C06", "L7/router-balance-changed", vdetail(wd, i, json!({"before": router_pre[i].to_string(), "after": now.to_string(), "step": what})));
                }
            }
            if via_router {
                if let Some(q) = &quote {
                    // vault received exactly the quoted payback (single non-nested router loan)
                    if facts.loans.len() == 1 && facts.withdrawn[v] == 0 && facts.collected[v] == 0 && facts.deposited[v] == 0 {
                        acc.count("check.L7.vault-received-quote");
                        let post = wd.observe(v).unwrap_or_default();
                        let got = post.bal as i128 - pre[v].bal as i128 + q.burn_fee.u128() as i128;
                        let want = q.payback_amount.u128() as i128 - amount as i128;
                        if got != want {
                            acc.violation("C06", "L7/vault-did-not-receive-exactly-the-quote", vdetail(wd, v, json!({"got": got.to_string(), "want": want.to_string(), "step": what})));
                        }
                    }
                }
            }
            let _ = (user_pre, any_nested_same);
            LoanOutcome { ok: true, err: String::new(), excess }
        }
    }
}

// ------------------------------------------------------------------------------------------------
// symbolic scripts (the adversary alphabet)

#[derive(Clone, Debug, PartialEq)]
pub enum Pre {
    None,
    Deposit,
    Withdraw,
    Collect,
    UpdateCfg,
    /// the borrower, as owner of the vault, switches flash loans off in its callback
    OwnerDisableLoans,
    Fail,
    Panic,
    Nested { other_vault: bool, frac: u8, inner: Box<Sym> },
}

#[derive(Clone, Debug, PartialEq)]
pub enum Rep {
    /// the quote minus the protocol + flash-loan fees of every same-vault loan nested two or more levels below
    ShortByDeepFees,
    Exact,
    Minus1,
    Plus,
    Nothing,
    PrincipalOnly,
}

#[derive(Clone, Debug, PartialEq)]
pub struct Sym {
    pub pre: Pre,
    pub pre_swallow: bool,
    pub repay_first: bool,
    pub rep: Rep,
    /// a second action run right after `pre` (never swallowed): lets a script take a sibling loan or
    /// deposit / withdraw / collect *after* a nested loan has completed
    pub pre2: Option<Box<Pre>>,
}

impl Sym {
    pub fn label(&self) -> String {
        let p = match &self.pre {
            Pre::None => "-".to_string(),
            Pre::Deposit => "dep".into(),
            Pre::Withdraw => "wd".into(),
            Pre::Collect => "col".into(),
            Pre::UpdateCfg => "cfg".into(),
            Pre::OwnerDisableLoans => "owner-disables-loans".into(),
            Pre::Fail => "fail".into(),
            Pre::Panic => "panic".into(),
            Pre::Nested { other_vault, frac, inner } => format!("loan[{}{}:{}]", if *other_vault { "other" } else { "same" }, frac, inner.label()),
        };
        let p2 = match self.pre2.as_deref() {
            None => String::new(),
            Some(Pre::Nested { inner, .. }) => format!("+loan[{}]", inner.label()),
            Some(Pre::Deposit) => "+dep".into(),
            Some(Pre::Withdraw) => "+wd".into(),
            Some(Pre::Collect) => "+col".into(),
            Some(_) => "+?".into(),
        };
        format!("{}{}{}{}>{:?}", p, if self.pre_swallow { "~" } else { "" }, p2, if self.repay_first { "<" } else { "" }, self.rep)
    }
    pub fn depth(&self) -> u32 {
        match &self.pre {
            Pre::Nested { inner, .. } => 1 + inner.depth(),
            _ => 1,
        }
        .max(match self.pre2.as_deref() {
            Some(Pre::Nested { inner, .. }) => 1 + inner.depth(),
            _ => 1,
        })
    }
    /// nothing but (possibly nested / sibling) loans, none swallowed, every loan below this level repaid exactly as quoted
    pub fn inner_loans_all_exact(&self) -> bool {
        let ok = |p: &Pre| match p {
            Pre::None => true,
            Pre::Nested { inner, .. } => inner.rep == Rep::Exact && inner.inner_loans_all_exact(),
            _ => false,
        };
        !self.pre_swallow && !self.repay_first && ok(&self.pre) && self.pre2.as_deref().map(ok).unwrap_or(true)
    }
    /// every loan of the script is repaid with exactly the amount quoted at the time of repayment
    pub fn exact_chain(&self) -> bool {
        self.rep == Rep::Exact && self.inner_loans_all_exact()
    }
    /// as exact_chain, but the outermost repayment is one unit below its quote
    pub fn minus1_outer_chain(&self) -> bool {
        self.rep == Rep::Minus1 && self.inner_loans_all_exact()
    }
    pub fn only_exact(&self) -> bool {
        self.pre == Pre::None && self.pre2.is_none() && self.rep == Rep::Exact
    }
    pub fn only_minus1(&self) -> bool {
        self.pre == Pre::None && self.pre2.is_none() && self.rep == Rep::Minus1
    }
}

const REPS: [Rep; 5] = [Rep::Exact, Rep::Minus1, Rep::Plus, Rep::Nothing, Rep::PrincipalOnly];

fn simple_pres() -> Vec<(Pre, bool, bool)> {
    // (pre, swallow, repay_first)
    let mut v = vec![(Pre::None, false, false)];
    for p in [Pre::Deposit, Pre::Withdraw, Pre::Collect, Pre::UpdateCfg, Pre::Fail, Pre::Panic] {
        v.push((p.clone(), false, false));
        v.push((p.clone(), true, false));
    }
    v.push((Pre::Deposit, false, true));
    v.push((Pre::Deposit, true, true));
    v.push((Pre::Collect, false, true));
    v
}

/// hand-picked scripts outside the product alphabet: two actions in a row at one level (sibling loans, an action
/// after a completed nested loan, the owner-borrower switching loans off before depositing)
pub fn special_scripts() -> Vec<Sym> {
    let exact = Sym { pre: Pre::None, pre_swallow: false, repay_first: false, rep: Rep::Exact, pre2: None };
    let nested = |inner: Sym| Pre::Nested { other_vault: false, frac: 2, inner: Box::new(inner) };
    let mut out = vec![];
    for rep in [Rep::Exact, Rep::Minus1, Rep::PrincipalOnly] {
        // L0[ L1 ; L2 ] siblings
        out.push(Sym { pre: nested(exact.clone()), pre_swallow: false, repay_first: false, rep: rep.clone(), pre2: Some(Box::new(nested(exact.clone()))) });
        // L0[ L1[L2] ] depth 3
        out.push(Sym { pre: nested(Sym { pre: nested(exact.clone()), pre_swallow: false, repay_first: false, rep: Rep::Exact, pre2: None }), pre_swallow: false, repay_first: false, rep: rep.clone(), pre2: None });
        // L0[ L1 ; deposit / withdraw / collect ]
        for p2 in [Pre::Deposit, Pre::Withdraw, Pre::Collect] {
            out.push(Sym { pre: nested(exact.clone()), pre_swallow: false, repay_first: false, rep: rep.clone(), pre2: Some(Box::new(p2)) });
        }
        // L0[ L1[L2] ] with the outermost repayment short by exactly L2's fees
        out.push(Sym { pre: nested(Sym { pre: nested(exact.clone()), pre_swallow: false, repay_first: false, rep: Rep::Exact, pre2: None }), pre_swallow: false, repay_first: false, rep: Rep::ShortByDeepFees, pre2: None });
        // owner-borrower: switch loans off, then deposit
        for sw in [false, true] {
            out.push(Sym { pre: Pre::OwnerDisableLoans, pre_swallow: sw, repay_first: false, rep: rep.clone(), pre2: Some(Box::new(Pre::Deposit)) });
        }
    }
    out
}

/// all scripts of nesting depth exactly `d` (d >= 1)
pub fn scripts_of_depth(d: u32) -> Vec<Sym> {
    if d == 1 {
        let mut out = vec![];
        for (p, sw, rf) in simple_pres() {
            for r in REPS.iter() {
                out.push(Sym { pre: p.clone(), pre_swallow: sw, repay_first: rf, rep: r.clone(), pre2: None });
            }
        }
        return out;
    }
    let inner = scripts_of_depth(d - 1);
    let mut out = vec![];
    for i in inner {
        for other in [false, true] {
            for frac in [1u8, 2u8] {
                for sw in [false, true] {
                    for r in REPS.iter() {
                        out.push(Sym { pre: Pre::Nested { other_vault: other, frac, inner: Box::new(i.clone()) }, pre_swallow: sw, repay_first: false, rep: r.clone(), pre2: None });
                    }
                }
            }
        }
    }
    out
}

/// bind a symbolic script to concrete addresses / amounts for a loan of `loan` on vault `v`
pub fn bind(wd: &VaultWorld, v: usize, loan: u128, s: &Sym, plus_k: u128) -> Vec<Step> {
    bind_out(wd, v, loan, s, plus_k, &vec![0u128; wd.vaults.len()])
}

/// `outst[i]`: what enclosing loans have currently taken out of vault i (not counting this loan)
fn bind_out(wd: &VaultWorld, v: usize, loan: u128, s: &Sym, plus_k: u128, outst: &Vec<u128>) -> Vec<Step> {
    let h = &wd.vaults[v];
    let vault = h.addr.to_string();
    let asset = h.asset.info();
    let mode = match s.rep {
        Rep::Exact => RepayMode::Exact,
        Rep::Minus1 => RepayMode::Minus1,
        Rep::Plus => RepayMode::Plus(Uint128::new(plus_k)),
        Rep::Nothing => RepayMode::Nothing,
        Rep::PrincipalOnly => RepayMode::PrincipalOnly,
        Rep::ShortByDeepFees => {
            // walk down the chain of same-vault nested loans, reproducing the amounts bind() will give them
            fn deep_fees(wd: &VaultWorld, v: usize, outer_loan: u128, s: &Sym, level: u32, out_v: u128) -> u128 {
                let mut total = 0u128;
                for p in [Some(&s.pre), s.pre2.as_deref()].into_iter().flatten() {
                    if let Pre::Nested { other_vault: false, frac, inner } = p {
                        let tb = wd.vaults[v].asset.balance(&wd.app, &wd.vaults[v].addr);
                        let avail = tb.saturating_sub(out_v).saturating_sub(outer_loan);
                        let amt = if *frac == 1 { avail } else { (avail / 2).max(1) };
                        if level >= 1 {
                            if let Ok(q) = wd.quote(v, amt) {
                                total += q.protocol_fee.u128() + q.flash_loan_fee.u128();
                            }
                        }
                        total += deep_fees(wd, v, amt, inner, level + 1, out_v + outer_loan);
                    }
                }
                total
            }
            let short = deep_fees(wd, v, loan, s, 0, outst[v]);
            if short == 0 { RepayMode::Minus1 } else { RepayMode::ShortBy(Uint128::new(short)) }
        }
    };
    let repay = Step { act: Act::Repay { vault: vault.clone(), asset: asset.clone(), loan: Uint128::new(loan), mode }, swallow: false };
    let act_of = |p: &Pre| -> Option<Act> {
        match p {
            Pre::None => None,
            Pre::Deposit => Some(Act::Deposit { vault: vault.clone(), asset: asset.clone(), amount: Uint128::new((loan / 2).max(1001)) }),
            Pre::Withdraw => {
                let have = bal_cw20(&wd.app, &h.lp, &wd.borrower);
                Some(Act::Withdraw { vault: vault.clone(), lp_token: h.lp.to_string(), lp: Uint128::new((have / 3).max(1)) })
            }
            Pre::Collect => Some(Act::CollectFees { vault: vault.clone() }),
            Pre::UpdateCfg => Some(Act::UpdateConfigAttempt { vault: vault.clone() }),
            Pre::OwnerDisableLoans => Some(Act::OwnerToggle { vault: vault.clone(), flash_loan_enabled: Some(false), deposit_enabled: None, withdraw_enabled: None }),
            Pre::Fail => Some(Act::Fail),
            Pre::Panic => Some(Act::Panic),
            Pre::Nested { other_vault, frac, inner } => {
                let tv = if *other_vault { 1 - v } else { v };
                let tb = wd.vaults[tv].asset.balance(&wd.app, &wd.vaults[tv].addr);
                // the inner loan can take what is left in the target vault (enclosing loans are still out)
                let avail = tb.saturating_sub(outst[tv]).saturating_sub(if tv == v { loan } else { 0 });
                let amt = match frac {
                    1 => avail,
                    _ => (avail / 2).max(1),
                };
                let mut o2 = outst.clone();
                o2[v] += loan;
                let inner_script = bind_out(wd, tv, amt, inner, plus_k, &o2);
                Some(Act::Loan { vault: wd.vaults[tv].addr.to_string(), amount: Uint128::new(amt), script: inner_script })
            }
        }
    };
    let pre: Option<Step> = act_of(&s.pre).map(|a| Step { act: a, swallow: s.pre_swallow });
    let pre2: Option<Step> = s.pre2.as_deref().and_then(act_of).map(|a| Step { act: a, swallow: false });
    let mut out = vec![];
    if s.repay_first {
        out.push(repay);
        if let Some(p) = pre {
            out.push(p);
        }
        if let Some(p) = pre2 {
            out.push(p);
        }
    } else {
        if let Some(p) = pre {
            out.push(p);
        }
        if let Some(p) = pre2 {
            out.push(p);
        }
        out.push(repay);
    }
    out
}

// router payload alphabet
#[derive(Clone, Debug, PartialEq)]
pub enum RouterPay {
    ExactFees,
    FeesMinus1,
    FeesPlus,
    Steal,
    StealPartAndRefill,
    NestedRouterLoan,
    ForgedNextLoan,
    NoFaucet,
    /// the payload lets another contract (the borrower) take and exactly repay its own loan from the same vault, then
    /// earns exactly the fees of the router loan: the router asks for its quote after that inner loan has completed
    OtherContractLoanInside,
}

pub const ROUTER_PAYLOADS: [RouterPay; 9] = [RouterPay::OtherContractLoanInside, RouterPay::ExactFees, RouterPay::FeesMinus1, RouterPay::FeesPlus, RouterPay::Steal, RouterPay::StealPartAndRefill, RouterPay::NestedRouterLoan, RouterPay::ForgedNextLoan, RouterPay::NoFaucet];

pub fn router_payload(wd: &VaultWorld, v: usize, loan: u128, kind: &RouterPay, plus_k: u128, initiator: &Addr) -> Vec<CosmosMsg> {
    let h = &wd.vaults[v];
    let q = wd.quote(v, loan).ok();
    let fees = q.map(|q| q.payback_amount.u128() - loan).unwrap_or(0);
    let give = |amount: u128| -> CosmosMsg {
        WasmMsg::Execute { contract_addr: wd.faucet.to_string(), msg: to_json_binary(&FaucetExec::Give { asset: h.asset.info(), to: wd.vrouter.to_string(), amount: Uint128::new(amount) }).unwrap(), funds: vec![] }.into()
    };
    let send_out = |amount: u128, to: &Addr| -> CosmosMsg {
        match &h.asset {
            AssetRef::Native(d) => BankMsg::Send { to_address: to.to_string(), amount: vec![coin(amount, d)] }.into(),
            AssetRef::Cw20(t) => WasmMsg::Execute { contract_addr: t.to_string(), msg: to_json_binary(&cw20::Cw20ExecuteMsg::Transfer { recipient: to.to_string(), amount: Uint128::new(amount) }).unwrap(), funds: vec![] }.into(),
        }
    };
    match kind {
        RouterPay::ExactFees => {
            if fees > 0 {
                vec![give(fees)]
            } else {
                vec![]
            }
        }
        RouterPay::FeesMinus1 => {
            if fees > 1 {
                vec![give(fees - 1)]
            } else if loan > 0 {
                // no fees to underpay: steal one unit instead
                vec![send_out(1, &wd.users[3])]
            } else {
                vec![]
            }
        }
        RouterPay::FeesPlus => vec![give(fees + plus_k)],
        RouterPay::Steal => {
            if loan > 0 {
                vec![send_out(loan, &wd.users[3])]
            } else {
                vec![]
            }
        }
        RouterPay::StealPartAndRefill => {
            let part = (loan / 2).max(1).min(loan.max(1));
            if loan == 0 {
                vec![give(fees)]
            } else {
                vec![send_out(part, &wd.users[3]), give(fees + part)]
            }
        }
        RouterPay::NestedRouterLoan => {
            let inner_amt = (h.asset.balance(&wd.app, &h.addr).saturating_sub(loan) / 2).max(1);
            let qi = wd.quote(v, inner_amt).ok().map(|q| q.payback_amount.u128() - inner_amt).unwrap_or(0);
            let inner_payload = if qi > 0 { vec![give(qi)] } else { vec![] };
            let mut p = vec![WasmMsg::Execute {
                contract_addr: wd.vrouter.to_string(),
                msg: to_json_binary(&white_whale_std::vault_network::vault_router::ExecuteMsg::FlashLoan { assets: vec![Asset { info: h.asset.info(), amount: Uint128::new(inner_amt) }], msgs: inner_payload }).unwrap(),
                funds: vec![],
            }
            .into()];
            if fees > 0 {
                p.push(give(fees));
            }
            p
        }
        RouterPay::ForgedNextLoan => {
            // the router (as borrower of a direct loan) is handed a forged NextLoan that names the attacker as initiator
            let inner_amt = (h.asset.balance(&wd.app, &h.addr).saturating_sub(loan) / 2).max(1);
            let forged = white_whale_std::vault_network::vault_router::ExecuteMsg::NextLoan {
                initiator: wd.users[3].clone(),
                source_vault: h.addr.to_string(),
                source_vault_asset_info: h.asset.info(),
                payload: vec![],
                to_loan: vec![],
                loaned_assets: vec![],
            };
            let mut p = vec![WasmMsg::Execute { contract_addr: h.addr.to_string(), msg: to_json_binary(&vm::ExecuteMsg::FlashLoan { amount: Uint128::new(inner_amt), msg: to_json_binary(&forged).unwrap() }).unwrap(), funds: vec![] }.into()];
            if fees > 0 {
                p.push(give(fees));
            }
            let _ = initiator;
            p
        }
        RouterPay::NoFaucet => vec![],
        RouterPay::OtherContractLoanInside => {
            let inner_amt = (h.asset.balance(&wd.app, &h.addr).saturating_sub(loan) / 2).max(1);
            let script = vec![Step { act: Act::Repay { vault: h.addr.to_string(), asset: h.asset.info(), loan: Uint128::new(inner_amt), mode: RepayMode::Exact }, swallow: false }];
            let mut p: Vec<CosmosMsg> = vec![WasmMsg::Execute { contract_addr: wd.borrower.to_string(), msg: to_json_binary(&BorrowerExec::Start { vault: h.addr.to_string(), amount: Uint128::new(inner_amt), script }).unwrap(), funds: vec![] }.into()];
            if fees > 0 {
                p.push(give(fees));
            }
            p
        }
    }
}

/// prepare a vault world with liquidity in both vaults and LP in the borrower's hands
pub fn seeded_world(fees: [[u128; 3]; 2], liq: [u128; 2]) -> VaultWorld {
    let mut wd = build_vault_world(fees);
    let mut dummy = Acc::new(0);
    for v in 0..2 {
        monitored_deposit(&mut dummy, &mut wd, 0, v, liq[v]);
        monitored_deposit(&mut dummy, &mut wd, 1, v, (liq[v] / 3).max(1));
        // borrower holds some LP so that its Withdraw action is meaningful
        let (lp, from, to) = (wd.vaults[v].lp.clone(), wd.users[1].clone(), wd.borrower.clone());
        let have = bal_cw20(&wd.app, &lp, &from);
        let _ = cw20_transfer(&mut wd.app, &lp, &from, &to, have / 2);
    }
    wd
}

pub fn gen_script(r: &mut Rng, depth_left: u32) -> Sym {
    let rep = r.pick(&REPS).clone();
    let rep = if r.chance(1, 2) { Rep::Exact } else if r.chance(1, 4) { Rep::ShortByDeepFees } else { rep };
    let (pre, rf) = match r.below(12) {
        0 | 1 | 2 | 3 => (Pre::None, false),
        4 => (Pre::Deposit, r.chance(1, 3)),
        5 => (Pre::Withdraw, false),
        6 => (Pre::Collect, r.chance(1, 3)),
        7 => (Pre::UpdateCfg, false),
        8 => (if r.chance(1, 2) { Pre::Fail } else { Pre::Panic }, false),
        _ => {
            if depth_left > 1 {
                (Pre::Nested { other_vault: r.chance(1, 2), frac: if r.chance(1, 2) { 1 } else { 2 }, inner: Box::new(gen_script(r, depth_left - 1)) }, false)
            } else {
                (Pre::None, false)
            }
        }
    };
    // after a nested loan: sometimes a second action at the same level (sibling loan, deposit, withdraw, collect)
    let pre2 = if matches!(pre, Pre::Nested { .. }) && r.chance(1, 2) {
        Some(Box::new(match r.below(5) {
            0 | 1 => Pre::Nested { other_vault: false, frac: 2, inner: Box::new(gen_script(r, 1)) },
            2 => Pre::Deposit,
            3 => Pre::Withdraw,
            _ => Pre::Collect,
        }))
    } else {
        None
    };
    Sym { pre, pre_swallow: r.chance(1, 2), repay_first: rf, rep, pre2 }
}


/// C16 probe: the borrower contract calls the vault's internal AfterTrade callback from inside its own flash loan
/// (loan counter > 0). The call has to be rejected like any other external callback: sent as a plain message it
/// aborts the whole loan; sent as a swallowed sub-message the loan goes on and the rejection shows as "swallowed".
pub fn forged_callback_probe(acc: &mut Acc, r: &mut Rng) {
    let f = r.fee_triple();
    let liq = r.range128(1_000_000, 1_000_000_000_000);
    let mut wd = seeded_world([f, f], [liq, liq]);
    for v in 0..2 {
        let bal = wd.vaults[v].asset.balance(&wd.app, &wd.vaults[v].addr);
        let amount = r.range128(1, bal.max(2) / 2);
        let usr = wd.users[2].clone();
        let (vault, asset) = (wd.vaults[v].addr.to_string(), wd.vaults[v].asset.info());
        for swallow in [false, true] {
            let old_balance = *r.pick(&[0u128, bal, bal - amount]);
            let loan_amount = *r.pick(&[0u128, amount, 1]);
            let script = vec![
                Step { act: Act::ForgeAfterTrade { vault: vault.clone(), old_balance: Uint128::new(old_balance), loan_amount: Uint128::new(loan_amount) }, swallow },
                Step { act: Act::Repay { vault: vault.clone(), asset: asset.clone(), loan: Uint128::new(amount), mode: RepayMode::Exact }, swallow: false },
            ];
            let before = snap(&wd.app);
            let res = wd.loan_direct(&usr, v, amount, script);
            acc.count("check.A1.forged-callback-inside-a-loan");
            acc.case(&[77, v as u64, swallow as u64, res.is_ok() as u64, (old_balance == 0) as u64, (loan_amount == 0) as u64]);
            let d = json!({"vault": v, "loan": amount.to_string(), "forged_old_balance": old_balance.to_string(), "forged_loan_amount": loan_amount.to_string(), "sent_as": if swallow { "sub-message whose failure is swallowed" } else { "plain message" }});
            match (&res, swallow) {
                (Ok(_), false) => acc.violation("C16", "A1/unauthorised-caller-accepted/vault.Callback.AfterTrade/borrower-inside-its-own-loan", d),
                (Ok(resp), true) => {
                    if attr(resp, "swallowed_id").is_none() {
                        acc.violation("C16", "A1/unauthorised-caller-accepted/vault.Callback.AfterTrade/borrower-inside-its-own-loan", d);
                    } else {
                        acc.count("rejected-for-unauthorised.vault.Callback.AfterTrade.inside-a-loan");
                    }
                }
                (Err(_), false) => {
                    acc.count("rejected-for-unauthorised.vault.Callback.AfterTrade.inside-a-loan");
                    if !same_state(&before, &snap(&wd.app)) {
                        acc.violation("C16", "U1/rejected-call-changed-state", d);
                    }
                }
                (Err(e), true) => {
                    // the honest remainder of the loan is expected to go through
                    acc.add(&format!("forged-callback-probe.loan-failed: {}", e.lines().last().unwrap_or("").chars().map(|c| if c.is_ascii_digit() { '#' } else { c }).take(80).collect::<String>()), 1);
                }
            }
            restore(&mut wd.app, &before);
        }
    }
}
