//! C10 — fee pipeline into the epoch (rides on the full-system history driver, sys.rs).
use crate::rt::{run_shards, Acc, CheckMeta, Ctx};

pub fn run(ctx: &Ctx) -> (CheckMeta, Acc) {
    let n = ctx.tier.pick(60, 3000);
    let steps = ctx.tier.pick(150, 300);
    let total = run_shards(ctx, 16, |sh, acc| crate::mon::sys::run_sys_histories(ctx, sh, acc, n, steps, "C10"));
    let meta = CheckMeta {
        level: "exploration",
        rule: "full-system histories as for C09 with 3 pairs (native/native, native/cw20, 2-hop leg), 3 vaults (native distribution asset, native other, cw20), routes present / absent per asset, pending fees in {0, <=1000, >1000} produced by real swaps and loans and dust transfers to the collector, take rate in {inactive, 0, 1e-18, 0.01, 0.1, 1/3, 1/2, 1-1e-18} with and without DAO address, a routed pool with swaps disabled (failing hop). For every successful NewEpoch, over the whole-world balance diff of the transaction: F1 vault/pool pending collected, F2 each non-distribution asset fully swapped (only with a registered route) or untouched, F3 DAO = floor(rate * split) and TakeRateHistory, F4 collector ends with 0 of the distribution asset, F5 nothing unrelated moved, Δdistributor = epoch total - rolled over (C09 E2); F6 ForwardFees from strangers rejected; a failing NewEpoch leaves the state byte-identical.".to_string(),
        assumptions: vec!["trio pools are not collected by ForwardFees (factory Pairs query only); not asserted".into()],
        obligations: vec!["check.F.pipeline".into(), "check.F3.take-rate".into(), "F3.take-rate-charged".into(), "F2.asset-swapped".into(), "F2.asset-left-in-collector".into(), "check.F6.forward-fees-auth".into(), "new_epoch.with-fees".into(), "new_epoch.rejected".into(), "check.U1".into()],
    };
    (meta, total)
}
