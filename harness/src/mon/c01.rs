//! C01 — constant-product pool: solvent, LP value monotone (history exploration over real pairs).
use crate::rt::{run_shards, Acc, CheckMeta, Ctx};

pub fn run(ctx: &Ctx) -> (CheckMeta, Acc) {
    let n_hist = ctx.tier.pick(200, 6000);
    let steps = ctx.tier.pick(80, 200);
    let total = run_shards(ctx, 16, |sh, acc| {
        crate::mon::pools::run_cp_histories(ctx, sh, acc, n_hist, steps, "C01");
    });
    let meta = CheckMeta {
        level: "exploration",
        rule: "random histories (provide balanced/skewed/dust/huge with receiver, withdraw via LP Send hook, native Swap and cw20 Send{Swap}, CollectProtocolFees, fee changes through the factory, donations, 0-3 ops per block, rollback probes) by 3 users + attacker on real constant-product pairs created through the real factory in the four native/cw20 combinations, random valid fee triples, reserves 2^10..2^118. evaluations = monitored top-level transactions; distinct = distinct (asset-kind combo, reserve magnitude bucket, sequence of the last 4 operation kinds) tuples. Invariants I1 (solvency), I2 (r0 r1 / S^2 monotone, exact U1024), I3 (pro-rata), I4 (probes), I5 (locked minimum liquidity), U1 (rejected tx changes nothing) evaluated after every step.".to_string(),
        assumptions: vec![
            "cw-multi-test 0.16.5 message dispatch / bank / transactional revert and cw20-base are trusted".into(),
            "default cargo features: LP tokens are cw20; token-factory LP paths are compiled out".into(),
        ],
        obligations: vec!["check.I1".into(), "check.I2".into(), "check.I3.withdraw".into(), "check.I3.deposit".into(), "check.I4.deposit-withdraw".into(), "check.I4.swap-there-and-back".into(), "check.I5".into(), "check.I5.after-drain".into(), "check.U1".into(), "swap.ok".into(), "collect.ok".into(), "set_fees.ok".into(), "donate.ok".into()],
    };
    (meta, total)
}
