//! C03 — two-asset stableswap never leaks value. Pure monitor over the pair's stableswap helpers
//! (compute_swap / compute_lp_mint_amount_for_stableswap_deposit) against the exact curve solver,
//! plus real stableswap pair histories (pools.rs, Kind::Stable).

use crate::curve;
use crate::mon::pools::{norm, stable_swap_floor, Kind};
use crate::rng::{hash_str, Rng};
use crate::rt::{run_shards, Acc, CheckMeta, Ctx};
use crate::wide::*;
use cosmwasm_std::Uint128;
use serde_json::json;
use std::panic::{catch_unwind, AssertUnwindSafe};
use terraswap_pair::verif_hooks::helpers::compute_lp_mint_amount_for_stableswap_deposit;
use white_whale_std::pool_network::asset::PairType;

pub const DECS: [[u8; 2]; 6] = [[6, 6], [6, 8], [8, 6], [6, 18], [18, 6], [4, 5]];
pub const MAXAMT: u128 = 1u128 << 100;

fn gen_amp(r: &mut Rng) -> u64 {
    match r.below(4) {
        0 => *r.pick(&[1u64, 2, 3, 10, 85, 100, 1000, 100_000, 999_999, 1_000_000]),
        1 => r.range(1, 200),
        _ => r.range(1, 1_000_000),
    }
}

/// reserves in base units: at least one whole token each, at most 2^100
fn gen_reserves(r: &mut Rng, d: [u8; 2]) -> (u128, u128, &'static str) {
    let one = [10u128.pow(d[0] as u32), 10u128.pow(d[1] as u32)];
    // whole-token magnitude such that both fit in 2^100
    let max_whole = (MAXAMT / one[0]).min(MAXAMT / one[1]);
    let a_whole = r.amount(max_whole).max(1);
    let (b_whole, cls) = match r.below(8) {
        0 | 1 | 2 => (a_whole, "balanced"),
        3 | 4 => (r.near(a_whole, max_whole).max(1), "near"),
        5 => ((a_whole / r.range128(2, 1000)).max(1), "imb<=1e3"),
        6 => (a_whole.saturating_mul(r.range128(2, 1000)).min(max_whole), "imb<=1e3"),
        _ => (r.amount(max_whole).max(1), "random"),
    };
    let mut x = a_whole * one[0];
    let mut y = b_whole * one[1];
    // sub-unit noise
    if r.chance(1, 2) {
        x = (x + r.below128(one[0])).min(MAXAMT);
        y = (y + r.below128(one[1])).min(MAXAMT);
    }
    (x, y, cls)
}

fn imb_of(x: &U1024, y: &U1024) -> &'static str {
    crate::mon::pools::imbalance_class(x, y)
}

fn swap_case(acc: &mut Acc, r: &mut Rng) {
    let d = *r.pick(&DECS);
    let dir = r.idx(2);
    let (od, ad) = (d[dir], d[1 - dir]);
    let (rx, ry, _cls) = gen_reserves(r, d);
    let (op, ask) = if dir == 0 { (rx, ry) } else { (ry, rx) };
    let amp = gen_amp(r);
    let fees = r.fee_triple();
    let offer = match r.below(6) {
        0 => r.amount(1000),
        1 => r.near(op, MAXAMT),
        2 => r.amount(MAXAMT),
        _ => (op / r.range128(1, 100_000)).max(1),
    };
    let pt = PairType::StableSwap { amp };
    let detail = |extra: serde_json::Value| {
        json!({"offer_pool": op.to_string(), "ask_pool": ask.to_string(), "offer": offer.to_string(), "amp": amp, "decimals_offer_ask": [od, ad],
               "fees": [fees[0].to_string(), fees[1].to_string(), fees[2].to_string()], "extra": extra})
    };
    let x = norm(op, od);
    let y = norm(ask, ad);
    let imb = imb_of(&x, &y);
    let res = crate::mon::c02::call(op, ask, offer, fees, &pt, od, ad);
    let outcome = match &res {
        crate::mon::c02::Res::Ok(_) => 0u64,
        crate::mon::c02::Res::Err(_) => 1,
        crate::mon::c02::Res::Panic(_) => 2,
    };
    acc.case(&[10, od as u64, ad as u64, (64 - amp.leading_zeros()) as u64 / 3, mag_class(op) / 2, hash_str(imb) % 97, outcome, mag_class(offer) / 3]);
    match res {
        crate::mon::c02::Res::Panic(loc) => {
            acc.count("pure.swap.panic");
            acc.add(&format!("trap-site: {loc}"), 1);
        }
        crate::mon::c02::Res::Err(_) => {
            acc.count("pure.swap.err");
        }
        crate::mon::c02::Res::Ok(o) => {
            acc.count("pure.swap.ok");
            let gross = w(o.ret) + w(o.swap_fee) + w(o.protocol_fee) + w(o.burn_fee);
            acc.count("check.S2");
            if gross > w(ask) {
                acc.violation("C03", "S2/gross>ask-reserve", detail(json!({"gross": gross.to_string()})));
                return;
            }
            acc.count("check.S1");
            let unit = pow10(18 - ad as u32);
            let bound = stable_swap_floor(amp, op, ask, offer, od, ad);
            let after = y - gross * unit;
            if after < bound {
                let deficit = diff_f64(&bound, &after) / f64_of(&unit);
                let mag = if deficit <= 10.0 { "<=10u" } else if deficit <= 1e3 { "<=1e3u" } else { ">1e3u" };
                acc.violation("C03", &format!("S1/pure/ask-reserve-below-curve/{mag}"), detail(json!({"gross": gross.to_string(), "after_norm": after.to_string(), "bound_norm": bound.to_string(), "deficit_units": deficit})));
            } else {
                acc.slack(&format!("S1.pure.units.{imb}"), diff_f64(&after, &bound) / f64_of(&unit), || format!("op={op} ask={ask} offer={offer} amp={amp} dec=({od},{ad})"));
            }
            // S3 monotone in the offer
            let delta = match r.below(3) {
                0 => 1,
                1 => r.amount(1000),
                _ => r.near(offer, MAXAMT),
            };
            if let Some(o2) = offer.checked_add(delta) {
                if o2 <= MAXAMT {
                    if let crate::mon::c02::Res::Ok(b) = crate::mon::c02::call(op, ask, o2, fees, &pt, od, ad) {
                        acc.count("check.S3");
                        let g2 = w(b.ret) + w(b.swap_fee) + w(b.protocol_fee) + w(b.burn_fee);
                        if g2 < gross {
                            acc.violation("C03", "S3/proceeds-decrease-when-offer-grows", detail(json!({"offer2": o2.to_string(), "gross": gross.to_string(), "gross2": g2.to_string()})));
                        }
                        // net of fees: three independent floors can take back at most 2 units
                        if b.ret + 2 < o.ret {
                            acc.violation("C03", "S3/net-proceeds-decrease-when-offer-grows", detail(json!({"offer2": o2.to_string(), "ret": o.ret.to_string(), "ret2": b.ret.to_string()})));
                        }
                    }
                }
            }
            acc.sample(|| detail(json!({"gross": gross.to_string(), "slack_units": diff_f64(&after, &bound) / f64_of(&unit)})));
        }
    }
}

fn deposit_case(acc: &mut Acc, r: &mut Rng) {
    // The helper has no notion of decimals: it is specified on amounts of one common precision
    // (the contract normalises before calling it; that glue is judged end-to-end by S4 on real pools).
    let dd = *r.pick(&[4u8, 5, 6, 8, 18]);
    let d = [dd, dd];
    let (rx, ry, _cls) = gen_reserves(r, d);
    let amp = gen_amp(r);
    let one = [10u128.pow(d[0] as u32), 10u128.pow(d[1] as u32)];
    // deposits: one-sided, balanced, or random; keep new reserves <= 2^100
    let (da, db) = match r.below(6) {
        0 => (r.near(rx, MAXAMT - rx), 0),
        1 => (0, r.near(ry, MAXAMT - ry)),
        2 => {
            let k = r.range128(1, 1000);
            ((rx / k).min(MAXAMT - rx), (ry / k).min(MAXAMT - ry))
        }
        3 => (r.amount(one[0] * 10), r.amount(one[1] * 10)),
        _ => (r.amount(MAXAMT - rx), r.amount(MAXAMT - ry)),
    };
    if da == 0 && db == 0 {
        return;
    }
    if rx + da > MAXAMT || ry + db > MAXAMT {
        return;
    }
    let supply = match r.below(3) {
        0 => r.amount(1u128 << 100),
        _ => {
            // natural supply ~ D on raw units
            (rx.saturating_add(ry)).max(2001)
        }
    };
    let res = catch_unwind(AssertUnwindSafe(|| {
        compute_lp_mint_amount_for_stableswap_deposit(&amp, Uint128::new(da), Uint128::new(db), Uint128::new(rx), Uint128::new(ry), Uint128::new(supply))
    }));
    let x0 = norm(rx, d[0]);
    let y0 = norm(ry, d[1]);
    let imb = imb_of(&x0, &y0);
    let eq = if d[0] == d[1] { "equal-decimals" } else { "unequal-decimals" };
    let outcome = match &res {
        Ok(Some(_)) => 0u64,
        Ok(None) => 1,
        Err(_) => 2,
    };
    acc.case(&[20, d[0] as u64, d[1] as u64, (64 - amp.leading_zeros()) as u64 / 3, mag_class(rx) / 2, hash_str(imb) % 97, outcome, (da == 0) as u64 + 2 * (db == 0) as u64]);
    match res {
        Err(_) => {
            acc.count("pure.mint.panic");
            acc.add(&format!("trap-site: {}", crate::trap::last_panic_location()), 1);
        }
        Ok(None) => acc.count("pure.mint.none"),
        Ok(Some(m)) => {
            acc.count("pure.mint.ok");
            acc.count("check.S4.pure");
            let minted = m.u128();
            let d0 = curve::d_star(&[x0, y0], amp, None);
            let d1 = curve::d_star(&[norm(rx + da, d[0]), norm(ry + db, d[1])], amp, None);
            let mind = d[0].min(d[1]);
            let delta = w(4) * pow10(18 - mind as u32);
            if d0 <= delta {
                return;
            }
            // minted <= S*(D1-D0+2δ)/(D0-δ) + 1
            let grow = if d1 + delta + delta > d0 { d1 + delta + delta - d0 } else { U1024::zero() };
            let bound = w(supply) * grow / (d0 - delta) + w(1);
            let detail = json!({"op": "pure compute_lp_mint_amount_for_stableswap_deposit", "decimals_class": eq, "reserves": [rx.to_string(), ry.to_string()], "deposit": [da.to_string(), db.to_string()], "supply": supply.to_string(), "amp": amp, "decimals": d,
                                "minted": minted.to_string(), "fair_bound": bound.to_string(), "D0": d0.to_string(), "D1": d1.to_string()});
            if w(minted) > bound {
                // value leaked to the depositor as a fraction of the whole pool: excess LP / LP supply after
                let leak = diff_f64(&w(minted), &bound) / (supply as f64 + minted as f64).max(1.0);
                let mag = crate::mon::pools::leak_class(leak);
                acc.violation("C03", &format!("S4/{imb}/{mag}"), detail);
            } else {
                let rel = diff_f64(&bound, &w(minted)) / f64_of(&bound).max(1.0);
                acc.slack(&format!("S4.pure.rel.{eq}.{imb}"), rel, || detail.to_string());
            }
        }
    }
}

pub fn run(ctx: &Ctx) -> (CheckMeta, Acc) {
    let per_shard = ctx.scaled(ctx.tier.pick(30_000, 600_000));
    let n_hist = ctx.tier.pick(3, 190);
    let steps = ctx.tier.pick(80, 150);
    let ph = hash_str("C03");
    let total = run_shards(ctx, 16, |sh, acc| {
        let (lo, hi) = match &ctx.replay {
            Some(r) if r.history >= 1_000_000_000 => (0, 0),
            Some(r) => (r.history, r.history + 1),
            None => (0, per_shard),
        };
        for i in lo..hi {
            acc.history = i;
            let mut r = Rng::from_parts(&[ctx.seed, ph, sh, i]);
            if i % 3 == 2 {
                deposit_case(acc, &mut r);
            } else {
                swap_case(acc, &mut r);
            }
        }
        if ctx.replay.as_ref().map(|r| r.history >= 1_000_000_000).unwrap_or(true) {
            if !ctx.pure_only {
                crate::mon::pools::run_histories(ctx, sh, acc, n_hist, steps, "C03", Kind::Stable);
            }
        }
    });
    let meta = CheckMeta {
        level: "exploration",
        rule: "pure: stableswap compute_swap and compute_lp_mint_amount_for_stableswap_deposit on reserves >= 1 whole token, amounts <= 2^100, amp in [1,1e6], the six stated decimal pairs, both directions, all fee triples; each result compared by exact U1024 inequalities with the invariant solved independently by certified bisection on 18-decimal-normalised reserves (S1 ask-reserve >= y*(D*-4u, X+offer)-3u; S2 gross < ask reserve; S3 monotone in offer; S4 mint bound). e2e: real stableswap pair histories (provide/withdraw/swap/collect/donate/fee change + deposit-withdraw and there-and-back probes with rollback) with S1/S2 on real transfers, S4 (D* per LP on deposits and withdrawals), S5 probe. distinct = distinct (case kind, decimals, amp bucket, reserve magnitude, imbalance class, outcome, offer magnitude / deposit shape) tuples.".to_string(),
        assumptions: vec![
            "oracle: exact integer bisection on U1024 (uint crate); allowances 4u on D and 3u on y are fixed constants derived in DESIGN.md §4 C03".into(),
            "S4/S5 allowance delta_D = 4 base units of the coarser asset".into(),
        ],
        obligations: vec!["check.S1".into(), "check.S2".into(), "check.S3".into(), "check.S4.pure".into(), "check.S4".into(), "check.S1.e2e".into(), "check.S5".into()],
    };
    (meta, total)
}
