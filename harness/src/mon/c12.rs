//! C12 — incentive flows funded and returned (rides on inc.rs).
use crate::rt::{run_shards, Acc, CheckMeta, Ctx};

pub fn run(ctx: &Ctx) -> (CheckMeta, Acc) {
    let n = ctx.tier.pick(160, 6000);
    let steps = ctx.tier.pick(100, 250);
    let total = run_shards(ctx, 16, |sh, acc| crate::mon::inc::run_inc_histories(ctx, sh, acc, n, steps, "C12"));
    let meta = CheckMeta {
        level: "exploration",
        rule: "incentive histories (see C11) with native and cw20 reward assets x native and cw20 creation fee x fee asset equal / different to the reward asset (4 fee variants x 2 LP kinds), opens with exact, fee-only, under- and over-payment, expansions with and without a new end epoch, claims over many epochs, closes by creator, factory owner and strangers, closes of expanded flows. F1 reward balance >= sum(funded - claimed); F2 on open/expand: increase of funded == tokens the contract received, fee == collector delta; F3 claimed <= funded; F4 close refunds exactly funded - claimed to the creator and removes the flow, nothing else moves; F5 strangers rejected.".to_string(),
        assumptions: vec!["funded amount of a flow = last asset_history entry, else flow_asset.amount".into()],
        obligations: vec!["check.F1".into(), "check.F2".into(), "check.F3".into(), "check.F4".into(), "check.F5".into(), "open_flow.ok.reward==fee-asset".into(), "expand_flow.ok".into(), "expand_flow.ok.flow-reset".into(), "close_flow.ok.expanded".into(), "open_flow.rejected".into()],
    };
    (meta, total)
}
