//! C11 — incentive custody of staked LP (rides on inc.rs).
use crate::rt::{run_shards, Acc, CheckMeta, Ctx};

pub fn run(ctx: &Ctx) -> (CheckMeta, Acc) {
    let n = ctx.tier.pick(160, 6000);
    let steps = ctx.tier.pick(100, 250);
    let total = run_shards(ctx, 16, |sh, acc| crate::mon::inc::run_inc_histories(ctx, sh, acc, n, steps, "C11"));
    let meta = CheckMeta {
        level: "exploration",
        rule: "random histories on a real incentive contract created by the real incentive factory, for a native-denom LP and for the cw20 LP of a real pair: open / expand (for self and for a receiver, exactly funded, under-funded, wrong denom, over-funded), close, withdraw, deposits through the real frontend helper, flows whose reward asset is the LP asset, claims, epochs from the real distributor. K1 LP balance == sum of all positions (Positions{} of every user) + unclaimed funds of LP-asset flows after every committed step; K2 withdraw pays exactly the caller's closed positions, touches nobody else (whole-world balance diff); K3 every open/expand moved exactly `amount` from the sender to the contract and credited the receiver; K4 helper holds nothing. distinct = distinct (variant, last-4 op kinds) tuples.".to_string(),
        assumptions: vec!["funded amount of a flow = last asset_history entry, else flow_asset.amount".into()],
        obligations: vec!["check.K1".into(), "check.K2.withdraw".into(), "check.K2.close".into(), "check.K3".into(), "check.K4".into(), "position.for-receiver.ok".into(), "withdraw_position.paid".into(), "position.rejected".into()],
    };
    (meta, total)
}
