//! C06 — flash loans are repaid with all fees or revert (fault enumeration over the adversary alphabet).
use crate::mon::vaults::*;
use crate::rng::{hash_str, Rng};
use crate::rt::{run_shards, Acc, CheckMeta, Ctx, Tier};
use crate::world::*;
use serde_json::json;

const ONE: u128 = 1_000_000_000_000_000_000;

fn fee_sets() -> Vec<[u128; 3]> {
    vec![
        [0, 0, 0],
        [1, 1, 1],                                    // dust-only
        [ONE / 100, ONE / 200, ONE / 1000],           // typical with burn
        [ONE / 3, ONE / 3, ONE / 3 - 1],              // near 1
        [ONE / 1000, ONE / 500, 0],                   // typical, no burn
    ]
}

struct Base {
    wd: VaultWorld,
    snap: Snap,
    model: (Vec<u128>, Vec<u128>, Vec<u128>, Vec<bool>),
}

/// `pending`: the world starts with uncollected protocol fees from an earlier, honestly repaid loan on each vault;
/// bit 1 of `flavour` (flavour = pending as u8 | owned << 1): the borrower contract owns both vaults
fn base_world(fees: [u128; 3], liq: u128, pending: bool) -> Base {
    base_world2(fees, liq, pending, false)
}

fn base_world2(fees: [u128; 3], liq: u128, pending: bool, borrower_owns: bool) -> Base {
    let mut wd = seeded_world([fees, fees], [liq, liq]);
    if borrower_owns {
        for v in 0..2 {
            let (o, f, va, b) = (wd.owner.clone(), wd.vfactory.clone(), wd.vaults[v].addr.clone(), wd.borrower.clone());
            exec(
                &mut wd.app,
                &o,
                &f,
                &white_whale_std::vault_network::vault_factory::ExecuteMsg::UpdateVaultConfig {
                    vault_addr: va.to_string(),
                    params: white_whale_std::vault_network::vault::UpdateConfigParams { flash_loan_enabled: None, deposit_enabled: None, withdraw_enabled: None, new_owner: Some(b.to_string()), new_vault_fees: None, new_fee_collector_addr: None },
                },
                &[],
            )
            .expect("hand the vault to the borrower");
        }
    }
    if pending {
        let mut dummy = Acc::new(0);
        for v in 0..2 {
            let amt = liq / 3;
            let s = Sym { pre: Pre::None, pre_swallow: false, repay_first: false, rep: Rep::Exact, pre2: None };
            let script = bind(&wd, v, amt, &s, 0);
            let _ = monitored_loan(&mut dummy, &mut wd, 1, v, amt, How::Direct(script), "warm-up loan (leaves pending protocol fees)");
        }
    }
    let snap = snap(&wd.app);
    let model = (wd.charged.clone(), wd.sent.clone(), wd.burned.clone(), wd.first_done.clone());
    Base { wd, snap, model }
}

fn reset(b: &mut Base) {
    restore(&mut b.wd.app, &b.snap);
    b.wd.charged = b.model.0.clone();
    b.wd.sent = b.model.1.clone();
    b.wd.burned = b.model.2.clone();
    b.wd.first_done = b.model.3.clone();
    b.wd.ops.clear();
}

fn amounts(bal: u128) -> Vec<u128> {
    vec![1, 999, 1000, bal / 2, bal, bal + 1]
}

fn run_case(acc: &mut Acc, b: &mut Base, v: usize, amt_idx: usize, sym: Option<&Sym>, router: Option<&RouterPay>, fee_idx: usize) {
    reset(b);
    let bal = b.wd.vaults[v].asset.balance(&b.wd.app, &b.wd.vaults[v].addr);
    let amount = amounts(bal)[amt_idx];
    let user = 2usize;
    let usr = b.wd.users[user].clone();
    match (sym, router) {
        (Some(s), _) => {
            let script = bind(&b.wd, v, amount, s, 777);
            let label = format!("direct {}", s.label());
            let out = monitored_loan(acc, &mut b.wd, user, v, amount, How::Direct(script), &label);
            acc.case(&[1, v as u64, amt_idx as u64, fee_idx as u64, hash_str(&s.label()), out.ok as u64]);
            if s.only_exact() && amount <= bal {
                acc.count("check.L8.exact-suffices");
                if !out.ok {
                    acc.violation("C06", "L8/exact-repayment-rejected", vdetail(&b.wd, v, json!({"err": out.err, "amount": amount.to_string()})));
                }
            }
            // generalisation to nested / sibling loans: when every loan is repaid with exactly the amount quoted at the
            // time of its repayment the vault gains exactly the fees due (the quote is tight), and an outermost
            // repayment one unit below its quote is never enough
            if s.exact_chain() && s.depth() >= 2 && out.ok {
                acc.count("check.L9.nested-exact-quotes-are-tight");
                for (i, ex) in &out.excess {
                    if *ex != 0 {
                        acc.violation("C06", "L9/quote-exceeds-what-suffices/repayments-exactly-as-quoted-overpaid-the-vault", vdetail(&b.wd, *i, json!({"excess": ex.to_string(), "amount": amount.to_string(), "script": s.label()})));
                    }
                }
            }
            if s.minus1_outer_chain() && s.depth() >= 2 {
                acc.count("check.L9.nested-one-less-never-suffices");
                if out.ok {
                    acc.violation("C06", "L9/underpayment-by-one-accepted/after-nested-loans", vdetail(&b.wd, v, json!({"amount": amount.to_string(), "script": s.label()})));
                }
            }
            if s.only_minus1() {
                acc.count("check.L9.one-less-never-suffices");
                if out.ok {
                    acc.violation("C06", "L9/underpayment-by-one-accepted", vdetail(&b.wd, v, json!({"amount": amount.to_string()})));
                }
            }
            if acc.samples.len() < 3 && s.depth() >= 2 {
                acc.sample(|| json!({"vault": v, "amount": amount.to_string(), "script": s.label(), "committed": out.ok}));
            }
        }
        (None, Some(k)) => {
            let payload = router_payload(&b.wd, v, amount, k, 777, &usr);
            let label = format!("router {k:?}");
            let user_pre = b.wd.vaults[v].asset.balance(&b.wd.app, &usr);
            let out = monitored_loan(acc, &mut b.wd, user, v, amount, How::Router(payload), &label);
            acc.case(&[2, v as u64, amt_idx as u64, fee_idx as u64, hash_str(&label), out.ok as u64]);
            let user_post = b.wd.vaults[v].asset.balance(&b.wd.app, &usr);
            match k {
                RouterPay::OtherContractLoanInside if amount + 2 <= bal && amount >= 1 => {
                    acc.count("check.L8.router-exact-suffices.after-another-contracts-loan");
                    if !out.ok {
                        acc.violation("C06", "L8/router/proceeds-equal-to-quote-rejected/after-another-contracts-loan", vdetail(&b.wd, v, json!({"err": out.err, "amount": amount.to_string()})));
                    } else if user_post != user_pre {
                        acc.violation("C06", "L7/router/initiator-delta!=inflow-minus-payback", vdetail(&b.wd, v, json!({"delta": (user_post as i128 - user_pre as i128).to_string(), "want": "0"})));
                    } else {
                        for (i, ex) in &out.excess {
                            if *ex != 0 {
                                acc.violation("C06", "L9/quote-exceeds-what-suffices/repayments-exactly-as-quoted-overpaid-the-vault", vdetail(&b.wd, *i, json!({"excess": ex.to_string(), "amount": amount.to_string(), "via": "router"})));
                            }
                        }
                    }
                }
                RouterPay::ExactFees if amount <= bal => {
                    acc.count("check.L8.router-exact-suffices");
                    if !out.ok {
                        acc.violation("C06", "L8/router/proceeds-equal-to-quote-rejected", vdetail(&b.wd, v, json!({"err": out.err, "amount": amount.to_string()})));
                    } else if user_post != user_pre {
                        acc.violation("C06", "L7/router/initiator-delta!=inflow-minus-payback", vdetail(&b.wd, v, json!({"delta": (user_post as i128 - user_pre as i128).to_string(), "want": "0"})));
                    }
                }
                RouterPay::FeesMinus1 if amount >= 1 => {
                    acc.count("check.L9.router-one-less-never-suffices");
                    if out.ok {
                        acc.violation("C06", "L9/router/underpayment-by-one-accepted", vdetail(&b.wd, v, json!({"amount": amount.to_string()})));
                    }
                }
                RouterPay::FeesPlus if amount <= bal => {
                    acc.count("check.L7.router-forwards-profit");
                    if out.ok && user_post as i128 - user_pre as i128 != 777 {
                        acc.violation("C06", "L7/router/initiator-delta!=inflow-minus-payback", vdetail(&b.wd, v, json!({"delta": (user_post as i128 - user_pre as i128).to_string(), "want": "777"})));
                    }
                    if !out.ok {
                        acc.violation("C06", "L8/router/overpaying-loan-rejected", vdetail(&b.wd, v, json!({"err": out.err})));
                    }
                }
                RouterPay::Steal | RouterPay::NoFaucet if amount >= 1 => {
                    // with non-zero total fee (or stolen principal) the loan cannot be repaid
                    let q = b.wd.quote(v, amount).map(|q| q.payback_amount.u128()).unwrap_or(0);
                    if out.ok && (*k == RouterPay::Steal || q > amount) {
                        acc.violation("C06", "L9/router/unrepayable-loan-accepted", vdetail(&b.wd, v, json!({"kind": format!("{k:?}"), "amount": amount.to_string()})));
                    }
                }
                _ => {}
            }
        }
        _ => {}
    }
    acc.evals += 0;
}

pub fn run(ctx: &Ctx) -> (CheckMeta, Acc) {
    let fees = fee_sets();
    let d1 = scripts_of_depth(1);
    let d2 = scripts_of_depth(2);
    let thorough = ctx.tier == Tier::Thorough;
    let d3_samples: u64 = ctx.scaled(ctx.tier.pick(100_000, 8_000_000));
    let liq = 1_000_000_000u128;
    let total = run_shards(ctx, 16, |sh, acc| {
        let mut idx: u64 = 0;
        let replay_h = ctx.replay.as_ref().map(|r| r.history);
        for (fi2, f) in fees.iter().flat_map(|f| [(f, false), (f, true)]).enumerate() {
            let (fi, pending) = (fi2 / 2, f.1);
            let f = f.0;
            let mut base = base_world(*f, liq, pending);
            acc.count(if pending { "base.with-pending-protocol-fees" } else { "base.fresh" });
            // depth 1: full product; router payloads: full product
            for v in 0..2 {
                for ai in 0..6 {
                    for s in d1.iter() {
                        idx += 1;
                        if idx % 16 != sh || replay_h.map(|h| h != idx).unwrap_or(false) {
                            continue;
                        }
                        acc.history = idx;
                        run_case(acc, &mut base, v, ai, Some(s), None, fi);
                    }
                    for k in ROUTER_PAYLOADS.iter() {
                        idx += 1;
                        if idx % 16 != sh || replay_h.map(|h| h != idx).unwrap_or(false) {
                            continue;
                        }
                        acc.history = idx;
                        run_case(acc, &mut base, v, ai, None, Some(k), fi);
                    }
                }
            }
            // depth 2: exhaustive over scripts; quick restricts amounts to {half, all} and fee sets {typical+burn, zero}
            let d2_fee_ok = thorough || (fi == 2 && pending) || (fi == 0 && !pending);
            if d2_fee_ok {
                for v in 0..2 {
                    for ai in 0..6 {
                        if !thorough && !(ai == 3 || ai == 4) {
                            continue;
                        }
                        for s in d2.iter() {
                            idx += 1;
                            if idx % 16 != sh || replay_h.map(|h| h != idx).unwrap_or(false) {
                                continue;
                            }
                            acc.history = idx;
                            run_case(acc, &mut base, v, ai, Some(s), None, fi);
                        }
                    }
                }
            }
            for (k, v) in crate::trap::traps_take() {
                acc.add(&format!("trap-site: {k}"), v);
            }
        }
        // hand-picked two-step scripts (siblings, action after a nested loan, owner-borrower) on every flavour of base world
        let specials = special_scripts();
        for (fi, f) in fees.iter().enumerate() {
            for (pending, owned) in [(false, false), (true, false), (true, true), (false, true)] {
                let mut base = base_world2(*f, liq, pending, owned);
                if owned {
                    acc.count("base.borrower-owns-the-vault");
                }
                for v in 0..2 {
                    for ai in [3usize, 4] {
                        for s in specials.iter() {
                            idx += 1;
                            if idx % 16 != sh || replay_h.map(|h| h != idx).unwrap_or(false) {
                                continue;
                            }
                            acc.history = idx;
                            acc.count("special-script.run");
                            run_case(acc, &mut base, v, ai, Some(s), None, fi);
                        }
                    }
                }
            }
        }
        acc.notes.insert("enumerated_index_max".into(), json!(idx));
        // depth 3: seeded sample
        let ph = hash_str("C06-depth3");
        let mut bases: Vec<Base> = fees.iter().flat_map(|f| [base_world(*f, liq, false), base_world(*f, liq, true)]).collect();
        let per = d3_samples / 16 + 1;
        for i in 0..per {
            let hid = 2_000_000_000 + i;
            if replay_h.map(|h| h != hid).unwrap_or(false) {
                continue;
            }
            acc.history = hid;
            let mut r = Rng::from_parts(&[ctx.seed, ph, sh, i]);
            let fi = r.idx(fees.len());
            let inner2 = r.pick(&d2).clone();
            let s = Sym { pre: Pre::Nested { other_vault: r.chance(1, 2), frac: if r.chance(1, 2) { 1 } else { 2 }, inner: Box::new(inner2) }, pre_swallow: r.chance(1, 2), repay_first: false, rep: r.pick(&[Rep::Exact, Rep::Minus1, Rep::Plus, Rep::Nothing, Rep::PrincipalOnly]).clone(), pre2: if r.chance(1, 3) { Some(Box::new(match r.below(4) { 0 | 1 => Pre::Nested { other_vault: false, frac: 2, inner: Box::new(r.pick(&d1).clone()) }, 2 => Pre::Deposit, _ => Pre::Collect })) } else { None } };
            let v = r.idx(2);
            let ai = r.idx(6);
            acc.count("depth3.sampled");
            let pend = r.idx(2);
            run_case(acc, &mut bases[fi * 2 + pend], v, ai, Some(&s), None, fi);
        }
    });
    let meta = CheckMeta {
        level: "fault_enumeration",
        rule: format!("borrower alphabet: pre-action in {{none, deposit, withdraw, collect, update-config attempt, fail, panic}} x {{propagating, swallowed}} (+ repay-first variants) x repay mode in {{exact, minus1, plus(k), nothing, principal-only}} = {} depth-1 scripts; nested loans (same/other vault, all/half of what is left, propagating/swallowed) carry a script of the previous depth: {} depth-2 scripts. Enumerated exhaustively: depth-1 scripts and the 9 router payload kinds over the full product {{native, cw20}} x 6 loan amounts {{1, 999, 1000, bal/2, bal, bal+1}} x 5 fee triples x {{fresh vault, vault holding uncollected protocol fees of an earlier loan}}; depth-2 scripts over {} ; depth-3 scripts are a seeded sample; 21 hand-picked two-step scripts (sibling loans, an action after a completed nested loan, depth 3, the borrower as owner of the vault switching loans off before depositing) run on every fee triple x {{fresh, pending fees}} x {{factory-owned, borrower-owned vault}} x both vaults x amounts {{bal/2, bal}}. Every top-level transaction is judged by L0-L9 (+V1, C07 ledger, U1). evaluations = transactions; distinct = distinct (kind, vault, amount index, fee set, script label, committed?) tuples.", d1.len(), d2.len(), if thorough { "the full product" } else { "amounts {bal/2, bal} x fee sets {zero, typical-with-burn} x both vaults" }),
        assumptions: vec![
            "committed facts of a transaction are read from its event list (cw-multi-test drops the events of reverted sub-messages) and from state diffs".into(),
            "the borrower's swallowed sub-calls are wrapped in a self-call with reply_on: Error".into(),
        ],
        obligations: vec!["loan.ok".into(), "loan.reverted".into(), "loan.ok.with-nested-loans".into(), "check.L1.vault-gain".into(), "check.L3.burn-destroyed".into(), "check.L5.counter-zero".into(), "check.L6.no-mint-during-loan".into(), "check.L7.router-keeps-nothing".into(), "check.L8.exact-suffices".into(), "check.L9.one-less-never-suffices".into(), "check.L8.router-exact-suffices".into(), "check.L9.router-one-less-never-suffices".into(), "check.L9.nested-exact-quotes-are-tight".into(), "check.L9.nested-one-less-never-suffices".into(), "check.L8.router-exact-suffices.after-another-contracts-loan".into(), "depth3.sampled".into(), "check.U1".into(), "base.with-pending-protocol-fees".into(), "base.borrower-owns-the-vault".into(), "special-script.run".into()],
    };
    (meta, total)
}
