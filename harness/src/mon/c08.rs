//! C08 — bonding conservation: every bonded token is bonded, unbonding, or back with its owner.
use crate::rng::{hash_str, Rng};
use crate::rt::{run_shards, Acc, CheckMeta, Ctx};
use crate::world::*;
use cosmwasm_std::{coin, Addr, Coin, Uint128};
use serde_json::{json, Value};
use std::collections::BTreeMap;
use white_whale_std::pool_network::asset::{Asset, AssetInfo};
use white_whale_std::whale_lair as lm;

const FUNDS: u128 = 1u128 << 100;
const DENOMS: [&str; 2] = ["ampWHALE", "bWHALE"];
/// native denoms that merely look like a whitelisted one (case variants, prefixes, suffixes, wrapped forms)
const LOOKALIKES: [&str; 10] = ["ampwhale", "AMPWHALE", "bwhale", "BWHALE", "ampWHALE2", "xbWHALE", "ampWHAL", "factory/creator/ampWHALE", "ibc/bWHALE", "ampWHALE/bWHALE"];

#[derive(Clone, Debug)]
struct Rec {
    amount: u128,
    ts: u64,
}

struct Model {
    bonded: BTreeMap<(usize, usize), u128>,
    unbonding: BTreeMap<(usize, usize), Vec<Rec>>,
    /// (user, denom) pairs that ever had two unbonds at one timestamp still pending together
    same_ts_pending: BTreeMap<(usize, usize), bool>,
}

pub struct LairWorld {
    pub app: cw_multi_test::App,
    pub core: Core,
    pub users: Vec<Addr>,
    pub period: u64,
    pub ops: Vec<String>,
}

pub fn catch_up_epochs(app: &mut cw_multi_test::App, core: &Core, keeper: &Addr) -> u32 {
    let mut n = 0;
    for _ in 0..400 {
        let r = exec(app, keeper, &core.distributor, &white_whale_std::fee_distributor::ExecuteMsg::NewEpoch {}, &[]);
        if r.is_err() {
            break;
        }
        n += 1;
    }
    n
}

fn build(r: &mut Rng) -> LairWorld {
    let owner = Addr::unchecked("owner");
    let users: Vec<Addr> = vec![Addr::unchecked("user0"), Addr::unchecked("user1"), Addr::unchecked("user2"), Addr::unchecked("attacker")];
    let mut balances = vec![];
    for u in users.iter().chain(std::iter::once(&owner)) {
        balances.push((u.clone(), vec![coin(FUNDS, DENOMS[0]), coin(FUNDS, DENOMS[1]), coin(FUNDS, "uwhale"), coin(FUNDS, "notlisted")].into_iter().chain(LOOKALIKES.iter().map(|d| coin(FUNDS, *d))).collect()));
    }
    let mut app = new_app(balances);
    let period = *r.pick(&[1u64, 1_000, 60_000_000_000, 3_600_000_000_000, DAY_NS + DAY_NS / 2, 3 * DAY_NS]);
    let p = CoreParams { unbonding_period: period, ..Default::default() };
    let core = deploy_core(&mut app, &owner, &p);
    catch_up_epochs(&mut app, &core, &owner);
    LairWorld { app, core, users, period, ops: vec![] }
}

fn asset(denom: &str, amount: u128) -> Asset {
    Asset { info: AssetInfo::NativeToken { denom: denom.to_string() }, amount: Uint128::new(amount) }
}

fn detail(wd: &LairWorld, extra: Value) -> Value {
    let k = wd.ops.len().saturating_sub(25);
    json!({"unbonding_period_ns": wd.period, "now_ns": wd.app.block_info().time.nanos(), "last_ops": wd.ops[k..].to_vec(), "extra": extra})
}

fn all_unbonding(wd: &LairWorld, user: &Addr, denom: &str) -> Result<Vec<(u64, u128)>, String> {
    let mut out: Vec<(u64, u128)> = vec![];
    let mut start: Option<u64> = None;
    loop {
        let resp: lm::UnbondingResponse = query(&wd.app, &wd.core.lair, &lm::QueryMsg::Unbonding { address: user.to_string(), denom: denom.to_string(), start_after: start, limit: Some(30) })?;
        if resp.unbonding_requests.is_empty() {
            break;
        }
        for b in &resp.unbonding_requests {
            out.push((b.timestamp.nanos(), b.asset.amount.u128()));
        }
        start = Some(resp.unbonding_requests.last().unwrap().timestamp.nanos());
        if resp.unbonding_requests.len() < 30 {
            break;
        }
    }
    Ok(out)
}

fn check_state(acc: &mut Acc, wd: &LairWorld, m: &Model, what: &str) {
    acc.count("check.B1");
    let tb: lm::BondedResponse = match query(&wd.app, &wd.core.lair, &lm::QueryMsg::TotalBonded {}) {
        Ok(t) => t,
        Err(e) => {
            acc.violation("C08", "B1/total-bonded-query-fails", detail(wd, json!({"err": e, "step": what})));
            return;
        }
    };
    let mut sum_users_total = 0u128;
    for (di, d) in DENOMS.iter().enumerate() {
        let reported_bonded = tb.bonded_assets.iter().find(|a| a.info == AssetInfo::NativeToken { denom: d.to_string() }).map(|a| a.amount.u128()).unwrap_or(0);
        let mut sum_unbonding = 0u128;
        let mut sum_user_bonds = 0u128;
        let mut same_ts = false;
        for (ui, u) in wd.users.iter().enumerate() {
            let recs = all_unbonding(wd, u, d).unwrap_or_default();
            let total: u128 = recs.iter().map(|x| x.1).sum();
            sum_unbonding += total;
            // model comparison, merged by timestamp (the contract keys records by timestamp)
            let mut merged: BTreeMap<u64, u128> = BTreeMap::new();
            for rec in m.unbonding.get(&(ui, di)).cloned().unwrap_or_default() {
                *merged.entry(rec.ts).or_insert(0) += rec.amount;
            }
            let model_recs: Vec<(u64, u128)> = merged.into_iter().collect();
            let pre = m.same_ts_pending.get(&(ui, di)).copied().unwrap_or(false);
            same_ts |= pre;
            if recs != model_recs {
                let tag = if pre { "/two-unbonds-same-(user,denom,timestamp)" } else { "" };
                acc.violation("C08", &format!("B2/unbonding-records!=model{tag}"), detail(wd, json!({"user": ui, "denom": d, "contract": format!("{recs:?}"), "model": format!("{model_recs:?}"), "step": what})));
            }
            let b: lm::BondedResponse = query(&wd.app, &wd.core.lair, &lm::QueryMsg::Bonded { address: u.to_string() }).unwrap_or(lm::BondedResponse { total_bonded: Uint128::zero(), bonded_assets: vec![], first_bonded_epoch_id: Default::default() });
            let ub = b.bonded_assets.iter().find(|a| a.info == AssetInfo::NativeToken { denom: d.to_string() }).map(|a| a.amount.u128()).unwrap_or(0);
            sum_user_bonds += ub;
            let want = m.bonded.get(&(ui, di)).copied().unwrap_or(0);
            if ub != want {
                acc.violation("C08", "B1/user-bond!=model", detail(wd, json!({"user": ui, "denom": d, "contract": ub.to_string(), "model": want.to_string(), "step": what})));
            }
            if di == 0 {
                sum_users_total += b.total_bonded.u128();
            }
        }
        let bal = bal_native(&wd.app, &wd.core.lair, d);
        if bal != reported_bonded + sum_unbonding {
            let tag = if same_ts { "/two-unbonds-same-(user,denom,timestamp)" } else { "" };
            acc.violation("C08", &format!("B1/balance!=bonded+unbonding{tag}"), detail(wd, json!({"denom": d, "balance": bal.to_string(), "bonded": reported_bonded.to_string(), "unbonding": sum_unbonding.to_string(), "step": what})));
        }
        if reported_bonded != sum_user_bonds {
            acc.violation("C08", "B1/global-bonded!=sum-of-user-bonds", detail(wd, json!({"denom": d, "global": reported_bonded.to_string(), "sum": sum_user_bonds.to_string(), "step": what})));
        }
    }
    if tb.total_bonded.u128() != sum_users_total {
        acc.violation("C08", "B1/total-bonded!=sum-of-users-totals", detail(wd, json!({"total": tb.total_bonded.to_string(), "sum": sum_users_total.to_string(), "step": what})));
    }
}

/// matured, not yet withdrawn amount per the model (the contract looks at the 30 oldest records)
fn model_withdrawable(m: &Model, ui: usize, di: usize, now: u64, period: u64) -> u128 {
    let mut recs = m.unbonding.get(&(ui, di)).cloned().unwrap_or_default();
    recs.sort_by_key(|r| r.ts);
    // merged by timestamp, as stored
    let mut merged: Vec<(u64, u128)> = vec![];
    for r in recs {
        match merged.last_mut() {
            Some(l) if l.0 == r.ts => l.1 += r.amount,
            _ => merged.push((r.ts, r.amount)),
        }
    }
    merged.iter().take(30).filter(|(ts, _)| now >= period && now - period >= *ts).map(|x| x.1).sum()
}

pub fn run_history(acc: &mut Acc, r: &mut Rng, steps: u64) {
    let mut wd = build(r);
    let mut m = Model { bonded: BTreeMap::new(), unbonding: BTreeMap::new(), same_ts_pending: BTreeMap::new() };
    let start_bal: Vec<Vec<u128>> = wd.users.iter().map(|u| DENOMS.iter().map(|d| bal_native(&wd.app, u, d)).collect()).collect();
    let period = wd.period;
    let mut class = vec![(64 - period.leading_zeros()) as u64 / 8];
    let mut last_unbond: Option<(usize, usize, u64)> = None;
    for _step in 0..steps {
        // time schedule
        let adv = match r.below(10) {
            0 | 1 | 2 => 0,
            3 => 1,
            4 => period.saturating_sub(1),
            5 => period,
            6 => DAY_NS,
            7 => r.range(1, 3_600_000_000_000),
            _ => 6_000_000_000,
        };
        if adv > 0 {
            advance(&mut wd.app, 1, adv);
            let owner = wd.core.owner.clone();
            catch_up_epochs(&mut wd.app, &wd.core, &owner);
        }
        let now = wd.app.block_info().time.nanos();
        let ui = r.idx(4);
        let di = r.idx(2);
        let usr = wd.users[ui].clone();
        let d = DENOMS[di];
        let before = snap(&wd.app);
        let op = r.below(100);
        let what;
        let ok;
        if op < 30 {
            let amount = match r.below(4) {
                0 => r.amount(1000),
                1 => r.amount(1u128 << 80),
                _ => r.range128(1, 1_000_000_000),
            };
            what = format!("bond user{ui} {d} {amount} @{now}");
            wd.ops.push(what.clone());
            let res = exec(&mut wd.app, &usr, &wd.core.lair.clone(), &lm::ExecuteMsg::Bond { asset: asset(d, amount) }, &[coin(amount, d)]);
            ok = res.is_ok();
            if ok {
                acc.count("bond.ok");
                *m.bonded.entry((ui, di)).or_insert(0) += amount;
            } else {
                acc.count("bond.rejected");
            }
            class.push(1);
        } else if op < 40 {
            // B3: invalid bonds must be rejected
            let amount = r.range128(1, 1_000_000);
            let (a, funds, kind): (Asset, Vec<Coin>, &str) = match r.below(9) {
                6 => (asset(d, amount), vec![coin(amount, DENOMS[1 - di])], "declared-one-listed-denom-sent-the-other"),
                7 => {
                    let l = *r.pick(&LOOKALIKES);
                    (asset(l, amount), vec![coin(amount, l)], "look-alike-of-a-whitelisted-denom")
                }
                8 => (asset(d, amount), vec![coin(amount, *r.pick(&LOOKALIKES))], "declared-listed-sent-look-alike"),
                0 => (asset("notlisted", amount), vec![coin(amount, "notlisted")], "non-whitelisted-denom"),
                1 => (Asset { info: AssetInfo::Token { contract_addr: "contract0".into() }, amount: Uint128::new(amount) }, vec![], "cw20-asset"),
                2 => (asset(d, amount), vec![coin(amount + 1, d)], "amount-mismatch"),
                3 => (asset(d, amount), vec![coin(amount, DENOMS[0]), coin(amount, DENOMS[1])], "two-coins"),
                4 => (asset(d, amount), vec![coin(amount, "notlisted")], "declared-listed-sent-unlisted"),
                _ => (asset(d, amount), vec![], "no-funds"),
            };
            what = format!("bad-bond user{ui} {kind} @{now}");
            wd.ops.push(what.clone());
            let mut funds = funds;
            funds.sort_by(|a, b| a.denom.cmp(&b.denom));
            let res = exec(&mut wd.app, &usr, &wd.core.lair.clone(), &lm::ExecuteMsg::Bond { asset: a }, &funds);
            acc.count("check.B3");
            if res.is_ok() {
                acc.violation("C08", &format!("B3/invalid-bond-accepted/{kind}"), detail(&wd, json!({"step": what})));
            }
            ok = res.is_ok();
            class.push(2);
        } else if op < 42 && m.bonded.get(&(ui, di)).copied().unwrap_or(0) >= 80 {
            // burst: more pending unbondings of one (user, denom) than the contract's page size of 30
            let n = r.range(31, 36);
            what = format!("burst of {n} unbonds user{ui} {d} from @{now}");
            wd.ops.push(what.clone());
            ok = true;
            for k in 0..n {
                if k > 0 {
                    advance(&mut wd.app, 0, 1);
                }
                let ts = wd.app.block_info().time.nanos();
                let amount = 1 + (k as u128 % 2);
                let res = exec(&mut wd.app, &usr, &wd.core.lair.clone(), &lm::ExecuteMsg::Unbond { asset: asset(d, amount) }, &[]);
                if res.is_ok() {
                    acc.count("unbond.ok");
                    *m.bonded.entry((ui, di)).or_insert(0) -= amount;
                    m.unbonding.entry((ui, di)).or_default().push(Rec { amount, ts });
                    last_unbond = Some((ui, di, ts));
                } else {
                    acc.count("unbond.rejected");
                }
            }
            acc.count("unbond.burst-over-30-pending");
            class.push(6);
        } else if op < 70 {
            let have = m.bonded.get(&(ui, di)).copied().unwrap_or(0);
            // sometimes repeat the previous unbond's (user, denom) in the same block
            let (ui2, di2) = match last_unbond {
                Some((pu, pd, pts)) if pts == now && r.chance(1, 2) => (pu, pd),
                _ => (ui, di),
            };
            let usr2 = wd.users[ui2].clone();
            let d2 = DENOMS[di2];
            let have2 = if (ui2, di2) == (ui, di) { have } else { m.bonded.get(&(ui2, di2)).copied().unwrap_or(0) };
            let amount = if have2 == 0 {
                r.amount(1000)
            } else {
                match r.below(6) {
                    0 => have2,
                    1 => have2 + 1,
                    2 => 1,
                    _ => r.range128(1, have2),
                }
            };
            what = format!("unbond user{ui2} {d2} {amount} @{now}");
            wd.ops.push(what.clone());
            let res = exec(&mut wd.app, &usr2, &wd.core.lair.clone(), &lm::ExecuteMsg::Unbond { asset: asset(d2, amount) }, &[]);
            ok = res.is_ok();
            if ok {
                acc.count("unbond.ok");
                *m.bonded.entry((ui2, di2)).or_insert(0) -= amount;
                let v = m.unbonding.entry((ui2, di2)).or_default();
                if v.iter().any(|x| x.ts == now) {
                    acc.count("unbond.second-at-same-timestamp");
                    m.same_ts_pending.insert((ui2, di2), true);
                }
                v.push(Rec { amount, ts: now });
                last_unbond = Some((ui2, di2, now));
            } else {
                acc.count("unbond.rejected");
                if amount <= have2 && amount > 0 {
                    acc.count("unbond.rejected-although-covered");
                }
            }
            class.push(3);
        } else {
            let expect = model_withdrawable(&m, ui, di, now, period);
            let wq: Result<lm::WithdrawableResponse, String> = query(&wd.app, &wd.core.lair, &lm::QueryMsg::Withdrawable { address: usr.to_string(), denom: d.to_string() });
            let pre_same = m.same_ts_pending.get(&(ui, di)).copied().unwrap_or(false);
            let tag = if pre_same { "/two-unbonds-same-(user,denom,timestamp)" } else { "" };
            if let Ok(wq) = &wq {
                acc.count("check.B2.withdrawable-query");
                if wq.withdrawable_amount.u128() != expect {
                    acc.violation("C08", &format!("B2/withdrawable-query!=model{tag}"), detail(&wd, json!({"user": ui, "denom": d, "query": wq.withdrawable_amount.to_string(), "model": expect.to_string()})));
                }
            }
            what = format!("withdraw user{ui} {d} @{now} (model matured {expect})");
            wd.ops.push(what.clone());
            let bal_pre = all_native(&wd.app);
            let res = exec(&mut wd.app, &usr, &wd.core.lair.clone(), &lm::ExecuteMsg::Withdraw { denom: d.to_string() }, &[]);
            ok = res.is_ok();
            if ok {
                acc.count("withdraw.ok");
                acc.count("check.B2.withdraw");
                let bal_post = all_native(&wd.app);
                let diff = balance_diff(&bal_pre, &bal_post);
                let paid = diff.iter().find(|(a, dn, _, _)| *a == usr.to_string() && dn == d).map(|x| x.3 as i128 - x.2 as i128).unwrap_or(0);
                if paid != expect as i128 {
                    acc.violation("C08", &format!("B2/withdraw-paid!=matured-unbondings{tag}"), detail(&wd, json!({"user": ui, "denom": d, "paid": paid.to_string(), "model": expect.to_string()})));
                }
                // nobody else's balance moves: only (user,+x) and (lair,-x)
                for (a, dn, b, c) in &diff {
                    let okk = (a == usr.as_str() && dn == d) || (a == wd.core.lair.as_str() && dn == d && (*b as i128 - *c as i128) == paid);
                    if !okk {
                        acc.violation("C08", "B2/withdraw-moved-foreign-balance", detail(&wd, json!({"account": a, "denom": dn, "before": b.to_string(), "after": c.to_string()})));
                    }
                }
                if expect == 0 {
                    acc.count("withdraw.ok-with-nothing-matured");
                }
                // model: remove matured among the 30 oldest
                if let Some(v) = m.unbonding.get_mut(&(ui, di)) {
                    v.sort_by_key(|x| x.ts);
                    let mut distinct_ts: Vec<u64> = v.iter().map(|x| x.ts).collect();
                    distinct_ts.dedup();
                    let considered: Vec<u64> = distinct_ts.into_iter().take(30).collect();
                    v.retain(|x| !(considered.contains(&x.ts) && now >= period && now - period >= x.ts));
                    if !v.iter().any(|x| v.iter().filter(|y| y.ts == x.ts).count() > 1) {
                        m.same_ts_pending.insert((ui, di), false);
                    }
                }
            } else {
                acc.count("withdraw.rejected");
                if expect > 0 {
                    acc.violation("C08", &format!("B2/matured-unbonding-not-withdrawable{tag}"), detail(&wd, json!({"user": ui, "denom": d, "model": expect.to_string(), "err": res.err()})));
                }
            }
            class.push(4);
        }
        if !ok {
            acc.count("check.U1");
            let after = snap(&wd.app);
            if !same_state(&before, &after) {
                acc.violation("C08", "U1/rejected-call-changed-state", detail(&wd, json!({"changed_keys": snap_diff(&before, &after), "step": what})));
            }
        }
        check_state(acc, &wd, &m, &what);
        acc.evals += 1;
        if class.len() > 5 {
            acc.class_only(&class);
            class.truncate(1);
        }
    }
    // final drain: after the period everyone recovers exactly what they unbonded
    advance(&mut wd.app, 10, period.saturating_add(DAY_NS));
    let owner = wd.core.owner.clone();
    catch_up_epochs(&mut wd.app, &wd.core, &owner);
    let any_same: bool = m.same_ts_pending.values().any(|x| *x);
    for (ui, u) in wd.users.clone().iter().enumerate() {
        for (di, d) in DENOMS.iter().enumerate() {
            for _ in 0..40 {
                if exec(&mut wd.app, u, &wd.core.lair.clone(), &lm::ExecuteMsg::Withdraw { denom: d.to_string() }, &[]).is_err() {
                    break;
                }
            }
            acc.count("check.B2.final-drain");
            let now_bal = bal_native(&wd.app, u, d);
            let still = m.bonded.get(&(ui, di)).copied().unwrap_or(0);
            if now_bal + still != start_bal[ui][di] {
                let tag = if any_same { "/two-unbonds-same-(user,denom,timestamp)" } else { "" };
                acc.violation("C08", &format!("B2/final-drain/user-did-not-recover-unbonded-amount{tag}"), detail(&wd, json!({"user": ui, "denom": d, "balance": now_bal.to_string(), "still_bonded": still.to_string(), "initial": start_bal[ui][di].to_string()})));
            }
        }
    }
    for (k, v) in crate::trap::traps_take() {
        acc.add(&format!("trap-site: {k}"), v);
    }
    let k = wd.ops.len().saturating_sub(10);
    acc.sample(|| json!({"period_ns": period, "history_tail": wd.ops[k..].to_vec()}));
}

pub fn run(ctx: &Ctx) -> (CheckMeta, Acc) {
    let n_hist = ctx.tier.pick(200, 5000);
    let steps = ctx.tier.pick(120, 300);
    let ph = hash_str("C08");
    let total = run_shards(ctx, 16, |sh, acc| {
        for h in 0..ctx.scaled(n_hist) {
            if let Some(rp) = &ctx.replay {
                if rp.history != h {
                    continue;
                }
            }
            acc.history = h;
            let mut r = Rng::from_parts(&[ctx.seed, ph, sh, h]);
            run_history(acc, &mut r, steps);
        }
    });
    let meta = CheckMeta {
        level: "exploration",
        rule: "random histories of bond / invalid bond / unbond / withdraw by 3 users + attacker over 2 whitelisted denoms on the real whale_lair wired to the real distributor + collector (epochs kept fresh by a keeper), unbonding period in {1ns, 1us, 1min, 1h, 1.5d, 3d}, time steps from {+0, +1ns, +period-1, +period, +1 day, random}, repeated unbonds of the same (user, denom) in one block. After every step: B1 balance == bonded + all pending unbondings (paged queries exhausted), global == sum of users; B2 unbonding records / Withdrawable / payout == ledger model (exactly once, owner only, not before period); B3 invalid bonds rejected; final drain. distinct = distinct (period class, last-5 op kinds) tuples.".to_string(),
        assumptions: vec!["records of one (user, denom) made at the same timestamp may be merged by the contract; the model compares them merged".into()],
        obligations: vec!["check.B1".into(), "check.B2.withdraw".into(), "check.B2.withdrawable-query".into(), "check.B3".into(), "unbond.second-at-same-timestamp".into(), "check.B2.final-drain".into(), "bond.ok".into(), "unbond.ok".into(), "check.U1".into()],
    };
    (meta, total)
}
