//! C18 — stored configuration is always within its documented bounds.
use crate::rng::{hash_str, Rng};
use crate::rt::{run_shards, Acc, CheckMeta, Ctx};
use crate::wide::ONE18;
use crate::world::*;
use cosmwasm_std::{coin, Addr, Decimal, Storage, Uint64};
use serde_json::{json, Value};
use std::collections::BTreeMap;
use white_whale_std::fee::VaultFee;
use white_whale_std::fee_collector as fc;
use white_whale_std::fee_distributor as fd;
use white_whale_std::pool_network::asset::{AssetInfo, PairInfo, PairType};
use white_whale_std::pool_network::factory as fm;
use white_whale_std::pool_network::pair as pm;
use white_whale_std::pool_network::trio as tm;
use white_whale_std::vault_network::vault as vm;
use white_whale_std::vault_network::vault_factory as vfm;
use white_whale_std::whale_lair as lm;

const FUNDS: u128 = 1u128 << 100;

struct W18 {
    app: cw_multi_test::App,
    core: Core,
    users: Vec<Addr>,
    assets: Vec<AssetRef>,
    pairs: Vec<(Addr, Addr)>,  // (pair, current owner)
    trios: Vec<(Addr, Addr)>,
    vaults: Vec<(Addr, AssetRef, Addr)>,
    distributors: Vec<Addr>,
    lairs: Vec<Addr>,
    grace_seen: BTreeMap<String, u64>,
    ops: Vec<String>,
    n_created: usize,
}

fn share(r: &mut Rng) -> u128 {
    match r.below(12) {
        0 => 0,
        1 => 1,
        2 => ONE18 - 1,
        3 => ONE18,
        4 => ONE18 + 1,
        5 => 2 * ONE18,
        6 => ONE18 / 2,
        7 => ONE18 / 2 - 1,
        8 => ONE18 / 3,
        9 => ONE18 / 3 + 1,
        _ => r.range128(0, ONE18 / 20),
    }
}
fn triple(r: &mut Rng) -> [u128; 3] {
    match r.below(6) {
        0 => {
            // sum exactly 1
            let a = r.range128(0, ONE18);
            let b = r.range128(0, ONE18 - a);
            [a, b, ONE18 - a - b]
        }
        1 => {
            let a = r.range128(0, ONE18 - 1);
            let b = r.range128(0, ONE18 - 1 - a);
            [a, b, ONE18 - 1 - a - b]
        }
        2 => [ONE18 / 2, ONE18 / 2, 0],
        _ => [share(r), share(r), share(r)],
    }
}
fn triple_valid(t: &[u128; 3]) -> bool {
    t.iter().all(|x| *x < ONE18) && t[0] + t[1] + t[2] < ONE18
}
fn amp_cand(r: &mut Rng) -> u64 {
    *r.pick(&[0u64, 1, 2, 100, 999_999, 1_000_000, 1_000_001, 10_000_000, u64::MAX / 4])
}

fn detail(w: &W18, extra: Value) -> Value {
    let k = w.ops.len().saturating_sub(12);
    json!({"last_ops": w.ops[k..].to_vec(), "extra": extra})
}

fn decs(d: &Decimal) -> u128 {
    d.atomics().u128()
}

fn check_all(acc: &mut Acc, w: &mut W18, what: &str) {
    acc.count("check.G.all-configs");
    for (p, _) in &w.pairs {
        let c: Result<pm::ConfigResponse, String> = query(&w.app, p, &pm::QueryMsg::Config {});
        if let Ok(c) = c {
            let t = [decs(&c.pool_fees.protocol_fee.share), decs(&c.pool_fees.swap_fee.share), decs(&c.pool_fees.burn_fee.share)];
            acc.count("check.G1.pair-fees");
            if !triple_valid(&t) {
                acc.violation("C18", "G1/pair-fees-out-of-bounds", detail(w, json!({"pair": p.to_string(), "fees": format!("{t:?}"), "step": what})));
            }
        }
        let pi: Result<PairInfo, String> = query(&w.app, p, &pm::QueryMsg::Pair {});
        if let Ok(pi) = pi {
            if let PairType::StableSwap { amp } = pi.pair_type {
                acc.count("check.G2.pair-amp");
                if !(1..=1_000_000).contains(&amp) {
                    acc.violation("C18", "G2/two-asset-stableswap-amp-out-of-bounds", detail(w, json!({"pair": p.to_string(), "amp": amp, "step": what})));
                }
            }
        }
    }
    let height = w.app.block_info().height;
    for (t, _) in &w.trios {
        let c: Result<tm::ConfigResponse, String> = query(&w.app, t, &tm::QueryMsg::Config {});
        if let Ok(c) = c {
            let f = [decs(&c.pool_fees.protocol_fee.share), decs(&c.pool_fees.swap_fee.share), decs(&c.pool_fees.burn_fee.share)];
            acc.count("check.G1.trio-fees");
            if !triple_valid(&f) {
                acc.violation("C18", "G1/trio-fees-out-of-bounds", detail(w, json!({"trio": t.to_string(), "fees": format!("{f:?}"), "step": what})));
            }
            acc.count("check.G2.trio-amp");
            let cfg = crate::mon::c04::AmpCfg { a0: c.initial_amp, a1: c.future_amp, t0: c.initial_amp_block, t1: c.future_amp_block };
            for b in [height, (c.initial_amp_block + c.future_amp_block) / 2, c.future_amp_block, c.future_amp_block + 1] {
                let a = crate::mon::c04::amp_at(&cfg, b.max(c.initial_amp_block));
                if !(1..=1_000_000).contains(&a) || !(1..=1_000_000).contains(&c.initial_amp) || !(1..=1_000_000).contains(&c.future_amp) {
                    acc.violation("C18", "G2/trio-amp-out-of-bounds", detail(w, json!({"trio": t.to_string(), "cfg": format!("{cfg:?}"), "block": b, "amp": a, "step": what})));
                    break;
                }
            }
        }
    }
    for (v, asset, _) in &w.vaults {
        let c: Result<vm::Config, String> = query(&w.app, v, &vm::QueryMsg::Config {});
        if let Ok(c) = c {
            let f = [decs(&c.fees.protocol_fee.share), decs(&c.fees.flash_loan_fee.share), decs(&c.fees.burn_fee.share)];
            acc.count("check.G1.vault-fees");
            if !triple_valid(&f) {
                acc.violation("C18", "G1/vault-fees-out-of-bounds", detail(w, json!({"vault": v.to_string(), "fees": format!("{f:?}"), "step": what})));
            }
            if asset.id().starts_with("factory/") {
                acc.count("check.G3.token-factory-vault-burn-fee");
                if f[2] != 0 {
                    acc.violation("C18", "G3/token-factory-vault-has-burn-fee", detail(w, json!({"vault": v.to_string(), "asset": asset.id(), "burn_fee": f[2].to_string(), "step": what})));
                }
            }
        }
    }
    for d in &w.distributors {
        let c: Result<fd::Config, String> = query(&w.app, d, &fd::QueryMsg::Config {});
        if let Ok(c) = c {
            acc.count("check.G4.distributor");
            let g = c.grace_period.u64();
            if !(1..=30).contains(&g) {
                acc.violation("C18", "G4/grace-period-out-of-bounds", detail(w, json!({"distributor": d.to_string(), "grace": g, "step": what})));
            }
            let prev = w.grace_seen.get(d.as_str()).copied().unwrap_or(g);
            if g < prev {
                acc.violation("C18", "G4/grace-period-decreased", detail(w, json!({"distributor": d.to_string(), "from": prev, "to": g, "step": what})));
            }
            w.grace_seen.insert(d.to_string(), g);
            if c.epoch_config.duration.u64() < DAY_NS {
                acc.violation("C18", "G4/epoch-duration-below-one-day", detail(w, json!({"distributor": d.to_string(), "duration": c.epoch_config.duration.u64(), "step": what})));
            }
        }
    }
    for l in &w.lairs {
        let c: Result<lm::Config, String> = query(&w.app, l, &lm::QueryMsg::Config {});
        if let Ok(c) = c {
            acc.count("check.G5.lair");
            if decs(&c.growth_rate) > ONE18 {
                acc.violation("C18", "G5/growth-rate-above-one", detail(w, json!({"lair": l.to_string(), "growth_rate": c.growth_rate.to_string(), "step": what})));
            }
            if c.bonding_assets.len() > 2 || c.bonding_assets.iter().any(|a| matches!(a, AssetInfo::Token { .. })) {
                acc.violation("C18", "G5/bonding-assets-out-of-bounds", detail(w, json!({"lair": l.to_string(), "assets": format!("{:?}", c.bonding_assets), "step": what})));
            }
        }
    }
    let c: Result<fc::Config, String> = query(&w.app, &w.core.collector, &fc::QueryMsg::Config {});
    if let Ok(c) = c {
        acc.count("check.G6.collector");
        if decs(&c.take_rate) >= ONE18 {
            acc.violation("C18", "G6/take-rate-not-below-one", detail(w, json!({"take_rate": c.take_rate.to_string(), "step": what})));
        }
    }
}

fn attempt<F: FnOnce(&mut W18) -> Result<(), String>>(acc: &mut Acc, w: &mut W18, what: String, f: F) -> bool {
    w.ops.push(what.clone());
    let before = snap(&w.app);
    let res = f(w);
    let ok = res.is_ok();
    if ok {
        acc.count("update.accepted");
    } else {
        acc.count("update.rejected");
        let e = res.unwrap_err();
        let cs: Vec<char> = e.chars().map(|c| if c.is_ascii_digit() { '#' } else { c }).collect();
        let e: String = cs[cs.len().saturating_sub(70)..].iter().collect();
        let kind = what.split(' ').next().unwrap_or("");
        acc.count(&format!("reject[{kind}]: {e}"));
        acc.count("check.U1");
        if !same_state(&before, &snap(&w.app)) {
            acc.violation("C18", "U1/rejected-update-changed-state", detail(w, json!({"changed": snap_diff(&before, &snap(&w.app)), "step": what})));
        }
    }
    check_all(acc, w, &what);
    ok
}

fn history(acc: &mut Acc, r: &mut Rng, steps: u64) {
    let owner = Addr::unchecked("owner");
    let users: Vec<Addr> = vec![Addr::unchecked("user0"), Addr::unchecked("user1")];
    let natives: Vec<String> = (0..24).map(|i| format!("ud{i:02}")).chain(["factory/migaloo1contractaddressxyz/utf".to_string(), "factory/migaloo1contractaddressxyz/ut2".to_string()]).collect();
    let mut app = new_app(vec![(owner.clone(), natives.iter().map(|d| coin(FUNDS, d)).chain([coin(FUNDS, "uwhale")]).collect())]);
    let core = deploy_core(&mut app, &owner, &CoreParams::default());
    for d in &natives {
        add_native_decimals(&mut app, &owner, &core.factory, d, 6);
    }
    let mut assets: Vec<AssetRef> = natives.iter().map(|d| AssetRef::Native(d.clone())).collect();
    for i in 0..3 {
        let t = create_cw20(&mut app, &core.codes, &owner, &format!("CW{}", ["A", "B", "C"][i]), 6, &[(owner.clone(), FUNDS)], None);
        assets.push(AssetRef::Cw20(t));
    }
    let mut w = W18 { app, core: core.clone(), users, assets, pairs: vec![], trios: vec![], vaults: vec![], distributors: vec![core.distributor.clone()], lairs: vec![core.lair.clone()], grace_seen: BTreeMap::new(), ops: vec![], n_created: 0 };
    // half of the histories start with a distributor that has already created epochs (a running system)
    if r.chance(1, 2) {
        advance(&mut w.app, 10, 3 * DAY_NS);
        let n = crate::mon::c08::catch_up_epochs(&mut w.app, &core, &owner);
        if n > 0 {
            acc.count("world.distributor-has-epochs");
        }
    }
    check_all(acc, &mut w, "initial");
    for _ in 0..steps {
        let op = r.below(100);
        let n = w.assets.len();
        if op < 12 {
            // create pair (CP or stableswap) with candidate fees / amp
            let i = w.n_created % 24;
            w.n_created += 1;
            let (a, b) = (w.assets[i].clone(), w.assets[(i + 1 + r.idx(n - 1)) % n].clone());
            let t = triple(r);
            let pt = if r.chance(1, 2) { PairType::StableSwap { amp: amp_cand(r) } } else { PairType::ConstantProduct };
            let what = format!("create_pair fees={t:?} type={pt:?}");
            let (f, o) = (w.core.factory.clone(), owner.clone());
            attempt(acc, &mut w, what, |w| {
                let h = create_pair(&mut w.app, &o, &f, [a, b], pool_fee(t), pt)?;
                w.pairs.push((h.addr, f.clone()));
                Ok(())
            });
            acc.class_only(&[1, triple_valid(&t) as u64]);
        } else if op < 30 {
            if w.pairs.is_empty() {
                continue;
            }
            let k = r.idx(w.pairs.len());
            let (p, cur_owner) = w.pairs[k].clone();
            let t = triple(r);
            let via_factory = cur_owner == w.core.factory;
            let what = format!("update_pair fees={t:?} via_factory={via_factory}");
            let (f, o) = (w.core.factory.clone(), owner.clone());
            attempt(acc, &mut w, what, |w| {
                if via_factory {
                    exec(&mut w.app, &o, &f, &fm::ExecuteMsg::UpdatePairConfig { pair_addr: p.to_string(), owner: None, fee_collector_addr: None, pool_fees: Some(pool_fee(t)), feature_toggle: None }, &[]).map(|_| ())
                } else {
                    exec(&mut w.app, &cur_owner, &p, &pm::ExecuteMsg::UpdateConfig { owner: None, fee_collector_addr: None, pool_fees: Some(pool_fee(t)), feature_toggle: None }, &[]).map(|_| ())
                }
            });
            acc.class_only(&[2, triple_valid(&t) as u64, via_factory as u64]);
        } else if op < 34 {
            // hand a pair over to a user so that the direct update path is exercised
            if w.pairs.is_empty() {
                continue;
            }
            let k = r.idx(w.pairs.len());
            let (p, cur_owner) = w.pairs[k].clone();
            if cur_owner != w.core.factory {
                continue;
            }
            let nu = w.users[r.idx(2)].clone();
            let (f, o) = (w.core.factory.clone(), owner.clone());
            let what = format!("transfer pair ownership to {nu}");
            let nu2 = nu.clone();
            if attempt(acc, &mut w, what, |w| exec(&mut w.app, &o, &f, &fm::ExecuteMsg::UpdatePairConfig { pair_addr: p.to_string(), owner: Some(nu2.to_string()), fee_collector_addr: None, pool_fees: None, feature_toggle: None }, &[]).map(|_| ())) {
                w.pairs[k].1 = nu;
            }
        } else if op < 42 {
            let i = w.n_created % 24;
            w.n_created += 1;
            let (a, b, c) = (w.assets[i].clone(), w.assets[(i + 1) % 24].clone(), w.assets[24 + r.idx(n - 24)].clone());
            let t = triple(r);
            let amp = amp_cand(r);
            let what = format!("create_trio fees={t:?} amp={amp}");
            let (f, o) = (w.core.factory.clone(), owner.clone());
            attempt(acc, &mut w, what, |w| {
                let h = create_trio(&mut w.app, &o, &f, [a, b, c], trio_fee(t), amp)?;
                w.trios.push((h.addr, f.clone()));
                Ok(())
            });
            acc.class_only(&[3, triple_valid(&t) as u64, (1..=1_000_000).contains(&amp) as u64]);
        } else if op < 56 {
            if w.trios.is_empty() {
                continue;
            }
            let k = r.idx(w.trios.len());
            let (t_addr, _) = w.trios[k].clone();
            let fees = if r.chance(1, 2) { Some(triple(r)) } else { None };
            let cfg: tm::ConfigResponse = query(&w.app, &t_addr, &tm::QueryMsg::Config {}).unwrap();
            let now = w.app.block_info().height;
            let a_now = crate::mon::c04::amp_at(&crate::mon::c04::AmpCfg { a0: cfg.initial_amp, a1: cfg.future_amp, t0: cfg.initial_amp_block, t1: cfg.future_amp_block }, now);
            let ramp = if r.chance(2, 3) {
                let fa = *r.pick(&[0u64, 1, a_now.saturating_mul(10), a_now.saturating_mul(10) + 1, (a_now / 10).max(1), a_now / 10, 1_000_000, 1_000_001, a_now * 2, a_now / 2]);
                Some(tm::RampAmp { future_a: fa, future_block: now + *r.pick(&[0u64, 9_999, 10_000, 10_001, 50_000]) })
            } else {
                None
            };
            let what = format!("update_trio fees={fees:?} ramp={ramp:?} (A_now={a_now})");
            let (f, o) = (w.core.factory.clone(), owner.clone());
            attempt(acc, &mut w, what, |w| exec(&mut w.app, &o, &f, &fm::ExecuteMsg::UpdateTrioConfig { trio_addr: t_addr.to_string(), owner: None, fee_collector_addr: None, pool_fees: fees.map(trio_fee), feature_toggle: None, amp_factor: ramp }, &[]).map(|_| ()));
            acc.class_only(&[4, fees.map(|t| triple_valid(&t) as u64).unwrap_or(2)]);
        } else if op < 64 {
            // vault over plain native, factory-style native or cw20
            let a = match r.below(4) {
                0 => w.assets[24].clone(),
                1 => w.assets[25].clone(),
                2 => w.assets[26 + r.idx(3)].clone(),
                _ => w.assets[r.idx(24)].clone(),
            };
            let t = triple(r);
            let what = format!("create_vault {} fees={t:?}", a.id());
            let (vf, o) = (w.core.vault_factory.clone(), owner.clone());
            attempt(acc, &mut w, what, |w| {
                let h = create_vault(&mut w.app, &o, &vf, a.clone(), vault_fee(t))?;
                w.vaults.push((h.addr, a, vf.clone()));
                Ok(())
            });
            acc.class_only(&[5, triple_valid(&t) as u64]);
        } else if op < 78 {
            if w.vaults.is_empty() {
                continue;
            }
            let k = r.idx(w.vaults.len());
            let (v, asset, cur_owner) = w.vaults[k].clone();
            let t = triple(r);
            let via_factory = cur_owner == w.core.vault_factory;
            let what = format!("update_vault {} fees={t:?} via_factory={via_factory}", asset.id());
            let (vf, o) = (w.core.vault_factory.clone(), owner.clone());
            let params = vm::UpdateConfigParams { flash_loan_enabled: None, deposit_enabled: None, withdraw_enabled: None, new_owner: None, new_vault_fees: Some(VaultFee { protocol_fee: fee(t[0]), flash_loan_fee: fee(t[1]), burn_fee: fee(t[2]) }), new_fee_collector_addr: None };
            attempt(acc, &mut w, what, |w| {
                if via_factory {
                    exec(&mut w.app, &o, &vf, &vfm::ExecuteMsg::UpdateVaultConfig { vault_addr: v.to_string(), params }, &[]).map(|_| ())
                } else {
                    exec(&mut w.app, &cur_owner, &v, &vm::ExecuteMsg::UpdateConfig(params), &[]).map(|_| ())
                }
            });
            acc.class_only(&[6, triple_valid(&t) as u64, via_factory as u64, asset.id().starts_with("factory/") as u64]);
        } else if op < 80 {
            if w.vaults.is_empty() {
                continue;
            }
            let k = r.idx(w.vaults.len());
            let (v, _, cur_owner) = w.vaults[k].clone();
            if cur_owner != w.core.vault_factory {
                continue;
            }
            let nu = w.users[r.idx(2)].clone();
            let (vf, o) = (w.core.vault_factory.clone(), owner.clone());
            let what = format!("transfer vault ownership to {nu}");
            let nu2 = nu.clone();
            if attempt(acc, &mut w, what, |w| exec(&mut w.app, &o, &vf, &vfm::ExecuteMsg::UpdateVaultConfig { vault_addr: v.to_string(), params: vm::UpdateConfigParams { flash_loan_enabled: None, deposit_enabled: None, withdraw_enabled: None, new_owner: Some(nu2.to_string()), new_vault_fees: None, new_fee_collector_addr: None } }, &[]).map(|_| ())) {
                w.vaults[k].2 = nu;
            }
        } else if op < 88 {
            // distributor: update or fresh instantiate
            if r.chance(2, 3) {
                let d = w.distributors[r.idx(w.distributors.len())].clone();
                let cur: fd::Config = query(&w.app, &d, &fd::QueryMsg::Config {}).unwrap();
                let g = cur.grace_period.u64();
                let ng = *r.pick(&[0u64, 1, g.saturating_sub(1), g, g + 1, 29, 30, 31, 100]);
                let dur = if r.chance(1, 2) { Some(*r.pick(&[DAY_NS - 1, DAY_NS, DAY_NS + 1, 0, 7 * DAY_NS])) } else { None };
                let what = format!("update_distributor grace={ng} duration={dur:?}");
                let o = owner.clone();
                attempt(acc, &mut w, what, |w| {
                    exec(
                        &mut w.app,
                        &o,
                        &d,
                        &fd::ExecuteMsg::UpdateConfig { owner: None, bonding_contract_addr: None, fee_collector_addr: None, grace_period: if ng == g && dur.is_some() { None } else { Some(Uint64::new(ng)) }, distribution_asset: None, epoch_config: dur.map(|x| white_whale_std::epoch_manager::epoch_manager::EpochConfig { duration: Uint64::new(x), genesis_epoch: cur.epoch_config.genesis_epoch }) },
                        &[],
                    )
                    .map(|_| ())
                });
                acc.class_only(&[7, (ng >= g) as u64, (1..=30).contains(&ng) as u64, dur.map(|x| (x >= DAY_NS) as u64).unwrap_or(2)]);
            } else {
                let g = *r.pick(&[0u64, 1, 2, 30, 31]);
                let dur = *r.pick(&[DAY_NS - 1, DAY_NS, 2 * DAY_NS]);
                let what = format!("instantiate_distributor grace={g} duration={dur}");
                let (o, c) = (owner.clone(), w.core.clone());
                attempt(acc, &mut w, what, |w| {
                    let a = inst(
                        &mut w.app,
                        c.codes.distributor,
                        &o,
                        &fd::InstantiateMsg { bonding_contract_addr: c.lair.to_string(), fee_collector_addr: c.collector.to_string(), grace_period: Uint64::new(g), epoch_config: white_whale_std::epoch_manager::epoch_manager::EpochConfig { duration: Uint64::new(dur), genesis_epoch: Uint64::new(GENESIS_NS) }, distribution_asset: AssetInfo::NativeToken { denom: "uwhale".into() } },
                        &[],
                        "fd2",
                        None,
                    )?;
                    w.distributors.push(a);
                    Ok(())
                });
                acc.class_only(&[8, (1..=30).contains(&g) as u64, (dur >= DAY_NS) as u64]);
            }
        } else if op < 95 {
            if r.chance(1, 2) {
                let l = w.lairs[r.idx(w.lairs.len())].clone();
                let gr = *r.pick(&[0u128, 1, ONE18 - 1, ONE18, ONE18 + 1, 2 * ONE18]);
                let what = format!("update_lair growth_rate={gr}");
                let o = owner.clone();
                attempt(acc, &mut w, what, |w| exec(&mut w.app, &o, &l, &lm::ExecuteMsg::UpdateConfig { owner: None, unbonding_period: None, growth_rate: Some(dec(gr)), fee_distributor_addr: None }, &[]).map(|_| ()));
                acc.class_only(&[9, (gr <= ONE18) as u64]);
            } else {
                let gr = *r.pick(&[0u128, ONE18, ONE18 + 1]);
                let k = r.range(0, 3) as usize;
                let mut ba: Vec<AssetInfo> = (0..k).map(|i| AssetInfo::NativeToken { denom: format!("ud{i:02}") }).collect();
                if r.chance(1, 4) && !ba.is_empty() {
                    ba[0] = w.assets[26].info();
                }
                let what = format!("instantiate_lair growth={gr} assets={}", ba.len());
                let (o, c) = (owner.clone(), w.core.clone());
                attempt(acc, &mut w, what, |w| {
                    let a = inst(&mut w.app, c.codes.lair, &o, &lm::InstantiateMsg { unbonding_period: Uint64::new(1_000_000), growth_rate: dec(gr), bonding_assets: ba }, &[], "lair2", None)?;
                    w.lairs.push(a);
                    Ok(())
                });
                acc.class_only(&[10, (gr <= ONE18) as u64, k as u64]);
            }
        } else {
            let tr = *r.pick(&[0u128, 1, ONE18 - 1, ONE18, ONE18 + 1, ONE18 / 2]);
            let what = format!("update_collector take_rate={tr}");
            let (o, c) = (owner.clone(), w.core.collector.clone());
            attempt(acc, &mut w, what, |w| exec(&mut w.app, &o, &c, &fc::ExecuteMsg::UpdateConfig { owner: None, pool_router: None, fee_distributor: None, pool_factory: None, vault_factory: None, take_rate: Some(dec(tr)), take_rate_dao_address: None, is_take_rate_active: None }, &[]).map(|_| ()));
            acc.class_only(&[11, (tr < ONE18) as u64]);
        }
        acc.evals += 1;
        if r.chance(1, 3) {
            advance(&mut w.app, *r.pick(&[1u64, 5_000, 10_000]), 6_000_000_000);
        }
    }
    let k = w.ops.len().saturating_sub(8);
    acc.sample(|| json!({"pairs": w.pairs.len(), "trios": w.trios.len(), "vaults": w.vaults.len(), "tail": w.ops[k..].to_vec()}));
}

/// G3 at the contract entry points: in this build a vault over a token-factory denom cannot be
/// created on the simulated chain (its cw20 LP symbol "uLP-factory/" is refused by cw20-base and the
/// token-factory LP path needs a chain feature), so the vault's real instantiate / execute / query
/// entry points are driven directly over mock dependencies; the LP-instantiation sub-message is not
/// executed, everything C18 reads (Config) is written before it.
fn g3_history(acc: &mut Acc, r: &mut Rng, steps: u64) {
    use cosmwasm_std::testing::{mock_dependencies, mock_env, mock_info};
    let denoms = ["factory/migaloo1contractaddressxyz/utf", "factory/migaloo1qwertyuiopasdfghjklzxcvbnm0123456789ab/ampWHALE", "factory/osmo1abc/sub/denom.with/slashes", "uwhale", "ibc/27394FB092D2ECCD56123C74F36E4C1F926001CEADA9CA97EA622B25F41E5EB2"];
    let denom = *r.pick(&denoms);
    let is_tf = denom.starts_with("factory/");
    let mut deps = mock_dependencies();
    let t = if r.chance(1, 2) { let mut t = triple(r); if r.chance(1, 2) { t[2] = 0; } t } else { [r.range128(0, ONE18 / 10), r.range128(0, ONE18 / 10), if r.chance(1, 2) { 0 } else { r.range128(1, ONE18 / 10) }] };
    let mut ops: Vec<String> = vec![format!("instantiate vault over {denom} fees={t:?}")];
    let res = vault::contract::instantiate(deps.as_mut(), mock_env(), mock_info("factory_contract", &[]), vm::InstantiateMsg { owner: "owner".into(), asset_info: AssetInfo::NativeToken { denom: denom.into() }, token_id: 5, vault_fees: vault_fee(t), fee_collector_addr: "collector".into(), token_factory_lp: false });
    acc.class_only(&[20, is_tf as u64, triple_valid(&t) as u64, (t[2] == 0) as u64, res.is_ok() as u64]);
    if res.is_err() {
        acc.count("g3.instantiate.rejected");
        return;
    }
    acc.count("g3.instantiate.accepted");
    let mut check = |deps: &cosmwasm_std::OwnedDeps<_, _, _>, acc: &mut Acc, ops: &Vec<String>| {
        let c: vm::Config = cosmwasm_std::from_json(vault::contract::query(deps.as_ref(), mock_env(), vm::QueryMsg::Config {}).unwrap()).unwrap();
        let f = [decs(&c.fees.protocol_fee.share), decs(&c.fees.flash_loan_fee.share), decs(&c.fees.burn_fee.share)];
        acc.count("check.G1.vault-fees");
        if !triple_valid(&f) {
            acc.violation("C18", "G1/vault-fees-out-of-bounds", json!({"ops": ops, "fees": format!("{f:?}")}));
        }
        if is_tf {
            acc.count("check.G3.token-factory-vault-burn-fee");
            if f[2] != 0 {
                acc.violation("C18", "G3/token-factory-vault-has-burn-fee", json!({"ops": ops, "asset": denom, "burn_fee": f[2].to_string()}));
            }
        }
        c
    };
    check(&deps, acc, &ops);
    let mut owner = "owner".to_string();
    for _ in 0..steps {
        let t = if r.chance(1, 2) { triple(r) } else { [r.range128(0, ONE18 / 10), r.range128(0, ONE18 / 10), if r.chance(1, 2) { 0 } else { r.range128(1, ONE18 / 10) }] };
        let new_owner = if r.chance(1, 6) { Some(format!("owner{}", r.below(3))) } else { None };
        let fees = if r.chance(5, 6) { Some(vault_fee(t)) } else { None };
        ops.push(format!("update_config by {owner} fees={:?} new_owner={new_owner:?}", fees.as_ref().map(|_| t)));
        let before = deps.storage.range(None, None, cosmwasm_std::Order::Ascending).collect::<Vec<_>>();
        let res = vault::contract::execute(deps.as_mut(), mock_env(), mock_info(&owner, &[]), vm::ExecuteMsg::UpdateConfig(vm::UpdateConfigParams { flash_loan_enabled: None, deposit_enabled: None, withdraw_enabled: None, new_owner: new_owner.clone(), new_vault_fees: fees.clone(), new_fee_collector_addr: None }));
        acc.class_only(&[21, is_tf as u64, fees.is_some() as u64, triple_valid(&t) as u64, (t[2] == 0) as u64, res.is_ok() as u64]);
        acc.evals += 1;
        match res {
            Ok(_) => {
                acc.count("g3.update.accepted");
                if let Some(o) = new_owner {
                    owner = o;
                }
            }
            Err(_) => {
                acc.count("g3.update.rejected");
                acc.count("check.U1");
                let after = deps.storage.range(None, None, cosmwasm_std::Order::Ascending).collect::<Vec<_>>();
                if before != after {
                    acc.violation("C18", "U1/rejected-update-changed-state", json!({"ops": ops}));
                }
            }
        }
        check(&deps, acc, &ops);
    }
}

pub fn run(ctx: &Ctx) -> (CheckMeta, Acc) {
    let n = ctx.tier.pick(200, 12000);
    let steps = ctx.tier.pick(150, 300);
    let ph = hash_str("C18");
    let total = run_shards(ctx, 16, |sh, acc| {
        for h in 0..ctx.scaled(n) {
            if let Some(rp) = &ctx.replay {
                if rp.history != h {
                    continue;
                }
            }
            acc.history = h;
            let mut r = Rng::from_parts(&[ctx.seed, ph, sh, h]);
            history(acc, &mut r, steps);
            for k in 0..8 {
                let mut r = Rng::from_parts(&[ctx.seed, ph, sh, h, 77 + k]);
                g3_history(acc, &mut r, 20);
            }
        }
    });
    let meta = CheckMeta {
        level: "exploration",
        rule: "sequences of creations through the factories, fresh instantiations, owner updates and factory-mediated updates (and direct updates after an ownership transfer) with every parameter on, just inside and just outside its bound at 1e-18 granularity: fee triples (each share in {0, 1e-18, .., 1-1e-18, 1, 1+1e-18, 2}, sums 1-1e-18 / 1 / above), trio amp and ramp targets around [1,1e6] and the 10x rule, two-asset stableswap amp, vault fees for plain / token-factory-style / cw20 assets, distributor grace period around [1,30] and around its current value, epoch duration around one day, lair growth rate around 1 and 0-3 bonding assets incl. a cw20, collector take rate around 1. After every attempt the Config{} of every contract created so far is read and checked against the documented bounds (trio amp at several blocks of the ramp); a rejected attempt leaves the chain state byte-identical. distinct = distinct (operation, validity class of the candidate) tuples.".to_string(),
        assumptions: vec!["token-factory asset = native denom starting with 'factory/'".into()],
        obligations: vec!["check.G1.pair-fees".into(), "check.G1.trio-fees".into(), "check.G1.vault-fees".into(), "check.G2.pair-amp".into(), "check.G2.trio-amp".into(), "check.G3.token-factory-vault-burn-fee".into(), "check.G4.distributor".into(), "check.G5.lair".into(), "check.G6.collector".into(), "update.accepted".into(), "update.rejected".into(), "check.U1".into(), "world.distributor-has-epochs".into()],
    };
    (meta, total)
}
