//! C05 — flash-loan vault: depositor share price never decreases (history exploration).
use crate::mon::vaults::*;
use crate::rng::{hash_str, Rng};
use crate::rt::{run_shards, Acc, CheckMeta, Ctx};
use crate::wide::*;
use crate::world::*;
use serde_json::json;

fn probe_deposit_withdraw(acc: &mut Acc, wd: &mut VaultWorld, r: &mut Rng, v: usize) {
    let Ok(obs) = wd.observe(v) else { return };
    if obs.s == 0 {
        return;
    }
    let saved = snap(&wd.app);
    let model = (wd.charged.clone(), wd.sent.clone(), wd.burned.clone(), wd.ops.len());
    let usr = wd.users[3].clone();
    let amount = match r.below(4) {
        0 => r.amount(1000),
        1 => r.near(obs.bal, FUNDS / 4),
        _ => (obs.bal / r.range128(1, 10_000)).max(1),
    };
    wd.prepare_allowance(&usr, v, amount);
    let b0 = wd.vaults[v].asset.balance(&wd.app, &usr);
    let lp0 = bal_cw20(&wd.app, &wd.vaults[v].lp, &usr);
    if wd.deposit(&usr, v, amount).is_ok() {
        let minted = bal_cw20(&wd.app, &wd.vaults[v].lp, &usr) - lp0;
        if minted > 0 && wd.withdraw(&usr, v, minted).is_ok() {
            acc.count("check.V3.deposit-then-withdraw");
            let b1 = wd.vaults[v].asset.balance(&wd.app, &usr);
            if b1 > b0 {
                acc.violation("C05", "V3/deposit-then-withdraw-profit", vdetail(wd, v, json!({"amount": amount.to_string(), "gain": (b1 - b0).to_string(), "obs": format!("{obs:?}")})));
            }
        }
    }
    restore(&mut wd.app, &saved);
    wd.charged = model.0;
    wd.sent = model.1;
    wd.burned = model.2;
    wd.ops.truncate(model.3);
}

pub fn run_history(acc: &mut Acc, r: &mut Rng, steps: u64) {
    let fees = [r.fee_triple(), r.fee_triple()];
    // fee triple order for vaults: protocol, flash, burn
    let mut wd = build_vault_world(fees);
    let bits = r.range(12, 100) as u32;
    let base = 1u128 << bits;
    for v in 0..2 {
        monitored_deposit(acc, &mut wd, 0, v, r.near(base, FUNDS / 8).max(1001));
    }
    // borrower gets some LP of each vault
    for v in 0..2 {
        let (lp, from, to) = (wd.vaults[v].lp.clone(), wd.users[0].clone(), wd.borrower.clone());
        let have = bal_cw20(&wd.app, &lp, &from);
        let _ = cw20_transfer(&mut wd.app, &lp, &from, &to, have / 4);
    }
    let mut class = vec![(bits / 12) as u64];
    for step in 0..steps {
        let v = r.idx(2);
        let user = r.idx(4);
        let Ok(obs) = wd.observe(v) else { break };
        let op = r.below(100);
        if obs.s == 0 || op < 20 {
            let amount = match r.below(5) {
                0 => r.amount(2000),
                1 => r.near(obs.bal, FUNDS / 8),
                2 => r.amount(FUNDS / 8),
                _ => (obs.bal / r.range128(1, 1000)).max(1),
            };
            monitored_deposit(acc, &mut wd, user, v, amount);
            class.push(1);
        } else if op < 38 {
            let have = bal_cw20(&wd.app, &wd.vaults[v].lp, &wd.users[user]);
            let lp = if have == 0 { r.amount(1000) } else { match r.below(4) { 0 => have, 1 => 1, _ => r.range128(1, have) } };
            monitored_withdraw(acc, &mut wd, user, v, lp);
            class.push(2);
        } else if op < 72 {
            let amount = match r.below(6) {
                0 => r.amount(1001),
                1 => obs.bal,
                2 => obs.bal + 1,
                3 => obs.bal / 2,
                _ => r.range128(1, obs.bal.max(1)),
            };
            if r.chance(1, 5) && obs.bal > 1_000_000 {
                // a small outer loan around a chain of two large nested loans, repaid short by exactly the innermost
                // loan's fees: only acceptable if those fees were (wrongly) left out of what the outer loan owes
                let exact = Sym { pre: Pre::None, pre_swallow: false, repay_first: false, rep: Rep::Exact, pre2: None };
                let mid = Sym { pre: Pre::Nested { other_vault: false, frac: 1, inner: Box::new(exact) }, pre_swallow: false, repay_first: false, rep: Rep::Exact, pre2: None };
                let sym = Sym { pre: Pre::Nested { other_vault: false, frac: 2, inner: Box::new(mid) }, pre_swallow: false, repay_first: false, rep: Rep::ShortByDeepFees, pre2: None };
                let small = (obs.bal / r.range128(50, 5000)).max(1);
                let script = bind(&wd, v, small, &sym, 0);
                let label = format!("direct {}", sym.label());
                acc.count("loan.deep-short-probe");
                monitored_loan(acc, &mut wd, user, v, small, How::Direct(script), &label);
                class.push(9);
            } else if r.chance(3, 4) {
                let sym = gen_script(r, 3);
                let script = bind(&wd, v, amount, &sym, r.range128(1, 1_000_000));
                let label = format!("direct {}", sym.label());
                let out = monitored_loan(acc, &mut wd, user, v, amount, How::Direct(script), &label);
                // (a borrower that cannot afford the fees out of its own pocket fails in the bank module: not a verdict of the vault)
                if sym.only_exact() && amount <= obs.bal && !out.ok && !out.err.contains("Cannot Sub") {
                    acc.violation("C06", "L8/exact-repayment-rejected", vdetail(&wd, v, json!({"err": out.err, "amount": amount.to_string()})));
                }
                class.push(3 + sym.depth() as u64);
            } else {
                let kind = r.pick(&ROUTER_PAYLOADS).clone();
                let usr = wd.users[user].clone();
                let payload = router_payload(&wd, v, amount, &kind, r.range128(1, 1_000_000), &usr);
                let label = format!("router {kind:?}");
                monitored_loan(acc, &mut wd, user, v, amount, How::Router(payload), &label);
                class.push(8);
            }
        } else if op < 82 {
            monitored_collect(acc, &mut wd, user, v);
            class.push(9);
        } else if op < 88 {
            let t = r.fee_triple();
            let what = format!("set_fees vault{v} {t:?}");
            wd.log(what.clone());
            if wd.set_fees(v, t).is_ok() {
                wd.fees[v] = t;
                acc.count("vset_fees.ok");
                if let Ok(post) = wd.observe(v) {
                    check_vault_step(acc, &wd, v, &obs, &post, &what, "");
                }
            } else {
                acc.count("vset_fees.rejected");
            }
            class.push(10);
        } else if op < 94 {
            let amt = if r.chance(1, 2) { r.amount(1000) } else { r.near(obs.bal / 100 + 1, FUNDS / 16) };
            let what = format!("donate vault{v} {amt}");
            wd.log(what.clone());
            let (a, from, to) = (wd.vaults[v].asset.clone(), wd.users[user].clone(), wd.vaults[v].addr.clone());
            if transfer(&mut wd.app, &a, &from, &to, amt).is_ok() {
                acc.count("vdonate.ok");
                if let Ok(post) = wd.observe(v) {
                    check_vault_step(acc, &wd, v, &obs, &post, &what, "");
                }
            }
            class.push(11);
        } else {
            probe_deposit_withdraw(acc, &mut wd, r, v);
        }
        acc.evals += 1;
        if r.chance(1, 2) {
            advance(&mut wd.app, 1, 6_000_000_000);
        }
        if step % 10 == 9 {
            probe_deposit_withdraw(acc, &mut wd, r, v);
        }
        if class.len() > 4 {
            acc.class_only(&class);
            class.truncate(1);
        }
    }
    // drain: every user withdraws everything; the locked minimum must remain
    for v in 0..2 {
        for user in 0..4 {
            let have = bal_cw20(&wd.app, &wd.vaults[v].lp, &wd.users[user]);
            if have > 0 {
                monitored_withdraw(acc, &mut wd, user, v, have);
            }
        }
    }
    // after the drain (the borrower gives up its shares too) only the locked minimum is left: a new depositor
    // must be priced against what still backs those shares (fees, dust), not as a first depositor
    for v in 0..2 {
        let (lp, b, va) = (wd.vaults[v].lp.clone(), wd.borrower.clone(), wd.vaults[v].addr.clone());
        let have = bal_cw20(&wd.app, &lp, &b);
        if have > 0 {
            let script = vec![crate::adversary::Step { act: crate::adversary::Act::Withdraw { vault: va.to_string(), lp_token: lp.to_string(), lp: cosmwasm_std::Uint128::new(have) }, swallow: false }];
            let u0 = wd.users[0].clone();
            wd.log(format!("borrower withdraws all its {have} LP of vault{v}"));
            let _ = exec(&mut wd.app, &u0, &b, &crate::adversary::BorrowerExec::Run { script }, &[]);
        }
        if let Ok(o) = wd.observe(v) {
            if o.s == 1000 {
                acc.count("drain.share-supply==locked-minimum");
            }
        }
        let amt = r.range128(1001, 1_000_000_000_000);
        if monitored_deposit(acc, &mut wd, 1, v, amt) {
            acc.count("deposit.after-full-drain");
            let have = bal_cw20(&wd.app, &wd.vaults[v].lp, &wd.users[1]);
            if have > 0 {
                monitored_withdraw(acc, &mut wd, 1, v, have);
            }
        }
    }
    for (k, v) in crate::trap::traps_take() {
        acc.add(&format!("trap-site: {k}"), v);
    }
    acc.sample(|| json!({"history_tail": wd.tail(12)}));
    let _ = w(0);
}

pub fn run_vault_histories(ctx: &Ctx, shard: u64, acc: &mut Acc, n_hist: u64, steps: u64) {
    let ph = hash_str("vault-histories");
    for h in 0..ctx.scaled(n_hist) {
        let hid = 1_300_000_000 + h;
        if let Some(rp) = &ctx.replay {
            if rp.history != hid {
                continue;
            }
        }
        acc.history = hid;
        let mut r = Rng::from_parts(&[ctx.seed, ph, shard, h]);
        run_history(acc, &mut r, steps);
    }
}

pub fn run(ctx: &Ctx) -> (CheckMeta, Acc) {
    let n_hist = ctx.tier.pick(240, 6000);
    let steps = ctx.tier.pick(80, 200);
    let total = run_shards(ctx, 16, |sh, acc| run_vault_histories(ctx, sh, acc, n_hist, steps));
    let meta = CheckMeta {
        level: "exploration",
        rule: "random histories on a native and a cw20 vault created by the real vault factory: deposits, withdrawals via LP Send, flash loans with random borrower scripts from the C06 alphabet (direct, nesting depth <= 3, and via the vault router with 8 payload kinds), CollectProtocolFees, fee changes through the factory, donations, deposit-then-withdraw probes with rollback, final drain. V1 share price (exact U1024 cross-multiplication) after every committed step, V2 pro-rata mint/payout + first-deposit lock, V3 probe, U1. distinct = distinct (reserve magnitude, last-4 operation kinds incl. script depth) tuples.".to_string(),
        assumptions: vec!["cw-multi-test dispatch/bank/revert, cw20-base trusted; borrower/faucet adversary contracts live in the harness".into()],
        obligations: vec!["check.V1".into(), "check.V2.deposit".into(), "check.V2.withdraw".into(), "check.V3.deposit-then-withdraw".into(), "loan.ok".into(), "loan.reverted".into(), "vcollect.ok".into(), "vset_fees.ok".into(), "check.U1".into()],
    };
    (meta, total)
}
