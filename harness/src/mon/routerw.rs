//! Router workload: 1..3 hop routes over a chain of real pairs of mixed type (constant product /
//! stableswap) and asset kind (native / cw20). C14: SimulateSwapOperations == receiver's balance
//! delta; C15: minimum_receive is enforced exactly (m = simulated passes, simulated + 1 is rejected).

use crate::rng::{hash_str, Rng};
use crate::rt::{Acc, Ctx};
use crate::wide::*;
use crate::world::*;
use cosmwasm_std::{coin, to_json_binary, Addr, Uint128};
use cw_multi_test::App;
use serde_json::{json, Value};
use white_whale_std::pool_network::asset::PairType;
use white_whale_std::pool_network::pair as pm;
use white_whale_std::pool_network::router as rm;

pub const FUNDS: u128 = 1u128 << 100;

pub struct RouterWorld {
    pub app: App,
    pub core: PoolCore,
    pub users: Vec<Addr>,
    /// chain of assets a0 - a1 - a2 - a3, pair i joins asset i and i+1
    pub assets: Vec<AssetRef>,
    pub pairs: Vec<PairHandle>,
    pub tokens: Vec<Addr>,
    pub ops: Vec<String>,
}

pub fn build(r: &mut Rng, variant: u64) -> RouterWorld {
    let owner = Addr::unchecked("owner");
    let users: Vec<Addr> = vec![Addr::unchecked("user0"), Addr::unchecked("user1"), Addr::unchecked("user2"), Addr::unchecked("attacker")];
    let natives = ["uaaa", "ubbb", "uccc", "uddd"];
    let mut balances = vec![];
    for u in users.iter().chain(std::iter::once(&owner)) {
        balances.push((u.clone(), natives.iter().map(|d| coin(FUNDS, *d)).collect::<Vec<_>>()));
    }
    let mut app = new_app(balances);
    let core = deploy_pool_core(&mut app, &owner);
    let mut assets = vec![];
    let mut tokens = vec![];
    for i in 0..4 {
        let is_native = (variant >> i) & 1 == 0;
        if is_native {
            add_native_decimals(&mut app, &owner, &core.factory, natives[i], 6);
            assets.push(AssetRef::Native(natives[i].to_string()));
        } else {
            let holders: Vec<(Addr, u128)> = users.iter().chain(std::iter::once(&owner)).map(|u| (u.clone(), FUNDS)).collect();
            let t = create_cw20(&mut app, &core.codes, &owner, &format!("TK{}", ["A", "B", "C", "D"][i]), 6, &holders, None);
            tokens.push(t.clone());
            assets.push(AssetRef::Cw20(t));
        }
    }
    let mut pairs = vec![];
    for i in 0..3 {
        let stable = (variant >> (4 + i)) & 1 == 1;
        let pt = if stable { PairType::StableSwap { amp: *r.pick(&[10u64, 100, 1000]) } } else { PairType::ConstantProduct };
        let mut f = r.fee_triple();
        if f[0] + f[1] + f[2] > ONE18 / 10 {
            f = [ONE18 / 1000, ONE18 / 500, ONE18 / 2000];
        }
        let h = create_pair(&mut app, &owner, &core.factory, [assets[i].clone(), assets[i + 1].clone()], pool_fee(f), pt).unwrap();
        let base = r.range128(10_000_000_000, 10_000_000_000_000_000);
        let amt = if stable { [base, base + r.range128(0, base / 10)] } else { [base, r.range128(base / 4, base * 4)] };
        let mut funds = vec![];
        for k in 0..2 {
            match &h.assets[k] {
                AssetRef::Native(d) => funds.push(coin(amt[k], d)),
                AssetRef::Cw20(t) => cw20_allow(&mut app, t, &owner, &h.addr, amt[k]),
            }
        }
        funds.sort_by(|a, b| a.denom.cmp(&b.denom));
        exec(&mut app, &owner, &h.addr, &pm::ExecuteMsg::ProvideLiquidity { assets: [h.assets[0].asset(amt[0]), h.assets[1].asset(amt[1])], slippage_tolerance: None, receiver: None }, &funds).unwrap();
        pairs.push(h);
    }
    RouterWorld { app, core, users, assets, pairs, tokens, ops: vec![] }
}

fn detail(wd: &RouterWorld, extra: Value) -> Value {
    let k = wd.ops.len().saturating_sub(15);
    json!({"assets": wd.assets.iter().map(|a| a.id()).collect::<Vec<_>>(), "last_ops": wd.ops[k..].to_vec(), "extra": extra})
}

fn ops_for(wd: &RouterWorld, from: usize, to: usize) -> Vec<rm::SwapOperation> {
    let mut v = vec![];
    let mut i = from;
    while i != to {
        let j = if to > i { i + 1 } else { i - 1 };
        v.push(rm::SwapOperation::TerraSwap { offer_asset_info: wd.assets[i].info(), ask_asset_info: wd.assets[j].info() });
        i = j;
    }
    v
}

pub fn run_history(acc: &mut Acc, r: &mut Rng, steps: u64, variant: u64) {
    let mut wd = build(r, variant);
    let router = wd.core.router.clone();
    for _ in 0..steps {
        let from = r.idx(4);
        let mut to = r.idx(4);
        if to == from {
            to = (from + 1) % 4;
        }
        let hops = (from as i64 - to as i64).unsigned_abs();
        let ops = ops_for(&wd, from, to);
        let ui = r.idx(3);
        let usr = wd.users[ui].clone();
        let amount = match r.below(6) {
            0 => r.amount(1000),
            1 => r.range128(1_000_000_000, 1_000_000_000_000_000),
            _ => r.range128(1_000, 50_000_000_000),
        };
        let recv_idx = if r.chance(1, 2) { Some(r.idx(4)) } else { None };
        let receiver = recv_idx.map(|i| wd.users[i].clone()).unwrap_or(usr.clone());
        let max_spread = if r.chance(3, 4) { Some(dec(ONE18 / 2)) } else { crate::mon::pools::gen_spread(r).map(dec) };
        let sim: Result<rm::SimulateSwapOperationsResponse, String> = query(&wd.app, &router, &rm::QueryMsg::SimulateSwapOperations { offer_amount: Uint128::new(amount), operations: ops.clone() });
        let mode = r.below(4); // 0 none, 1 m = simulated, 2 m = simulated + 1, 3 m = simulated - 1
        let min_recv = match (&sim, mode) {
            (Ok(s), 1) => Some(s.amount.u128()),
            (Ok(s), 2) => Some(s.amount.u128() + 1),
            (Ok(s), 3) => Some(s.amount.u128().saturating_sub(1)),
            _ => None,
        };
        let what = format!("route user{ui} {from}->{to} ({hops} hops) amount={amount} min_receive={min_recv:?} to={recv_idx:?} max_spread={max_spread:?}");
        wd.ops.push(what.clone());
        let rb_pre = wd.assets[to].balance(&wd.app, &receiver);
        let router_pre: Vec<u128> = wd.assets.iter().map(|a| a.balance(&wd.app, &router)).collect();
        let before = snap(&wd.app);
        let res = match &wd.assets[from] {
            AssetRef::Native(d) => exec(&mut wd.app, &usr, &router, &rm::ExecuteMsg::ExecuteSwapOperations { operations: ops.clone(), minimum_receive: min_recv.map(Uint128::new), to: recv_idx.map(|i| wd.users[i].to_string()), max_spread }, &[coin(amount, d)]),
            AssetRef::Cw20(t) => exec(
                &mut wd.app,
                &usr,
                t,
                &cw20::Cw20ExecuteMsg::Send {
                    contract: router.to_string(),
                    amount: Uint128::new(amount),
                    msg: to_json_binary(&rm::Cw20HookMsg::ExecuteSwapOperations { operations: ops.clone(), minimum_receive: min_recv.map(Uint128::new), to: recv_idx.map(|i| wd.users[i].to_string()), max_spread }).unwrap(),
                },
                &[],
            ),
        };
        acc.case(&[variant % 128, hops, mode, res.is_ok() as u64, sim.is_ok() as u64, mag_class(amount) / 2]);
        match res {
            Err(e) => {
                acc.count("route.rejected");
                acc.count("check.U1");
                if !same_state(&before, &snap(&wd.app)) {
                    acc.violation("C14", "U1/rejected-route-changed-state", detail(&wd, json!({"step": what})));
                }
                if e.contains("MinimumReceiveAssertion") || e.contains("minimum receive") || e.contains("Minimum receive") {
                    acc.count("route.rejected.minimum-receive");
                    acc.count("check.C15.route-rejected-for-minimum-receive");
                    // converse: the simulated delta was below m
                    if let (Ok(s), Some(m)) = (&sim, min_recv) {
                        if s.amount.u128() >= m {
                            acc.violation("C15", "L7/route-rejected-although-simulated>=minimum_receive", detail(&wd, json!({"simulated": s.amount.to_string(), "minimum_receive": m.to_string(), "step": what})));
                        }
                    }
                } else if mode == 2 {
                    acc.count("route.rejected.other-with-min+1");
                }
                if mode == 1 || mode == 3 {
                    // within the limit: must not be rejected *for the minimum-receive reason*
                    if e.contains("MinimumReceiveAssertion") {
                        acc.count("route.rejected.min-within-limit");
                    }
                }
            }
            Ok(_) => {
                acc.count("route.ok");
                acc.count(&format!("route.ok.{hops}-hop"));
                if recv_idx.is_some() && rb_pre > 0 {
                    acc.count("route.ok.receiver-with-pre-existing-balance");
                }
                let rb_post = wd.assets[to].balance(&wd.app, &receiver);
                let delta = rb_post.wrapping_sub(rb_pre);
                // C14
                acc.count("check.C14.route");
                match &sim {
                    Ok(s) => {
                        // sender == receiver and from/to differ, so the delta is the route output
                        if s.amount.u128() != delta {
                            acc.violation("C14", &format!("Q7/router-simulation!=receiver-delta/{hops}-hop"), detail(&wd, json!({"simulated": s.amount.to_string(), "delta": delta.to_string(), "step": what})));
                        }
                    }
                    Err(e) => acc.violation("C14", "Q7/router-simulation-failed-but-execution-succeeded", detail(&wd, json!({"err": e, "step": what}))),
                }
                // C15
                if let Some(m) = min_recv {
                    acc.count("check.C15.route-accepted-with-minimum-receive");
                    if delta < m {
                        acc.violation("C15", "L6/route-accepted-below-minimum_receive", detail(&wd, json!({"delta": delta.to_string(), "minimum_receive": m.to_string(), "step": what})));
                    }
                }
                // router keeps nothing
                for (i, a) in wd.assets.iter().enumerate() {
                    if a.balance(&wd.app, &router) != router_pre[i] {
                        acc.violation("C14", "Q8/router-retained-funds", detail(&wd, json!({"asset": a.id(), "step": what})));
                    }
                }
            }
        }
        if r.chance(1, 3) {
            advance(&mut wd.app, 1, 6_000_000_000);
        }
    }
    for (k, v) in crate::trap::traps_take() {
        acc.add(&format!("trap-site: {k}"), v);
    }
    let k = wd.ops.len().saturating_sub(6);
    acc.sample(|| json!({"variant": variant, "history_tail": wd.ops[k..].to_vec()}));
}

pub fn run_router_histories(ctx: &Ctx, shard: u64, acc: &mut Acc, n_hist: u64, steps: u64) {
    let ph = hash_str("router-histories");
    for h in 0..ctx.scaled(n_hist) {
        let hid = 1_600_000_000 + h;
        if let Some(rp) = &ctx.replay {
            if rp.history != hid {
                continue;
            }
        }
        acc.history = hid;
        let mut r = Rng::from_parts(&[ctx.seed, ph, shard, h]);
        run_history(acc, &mut r, steps, shard * 8 + h * 5 + 1);
    }
}
