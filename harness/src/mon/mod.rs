use crate::rt::{Acc, CheckMeta, Ctx};

pub mod c01;
pub mod c02;
pub mod c03;
pub mod c04;
pub mod c05;
pub mod c06;
pub mod c07;
pub mod c08;
pub mod c09;
pub mod c10;
pub mod c11;
pub mod c12;
pub mod c13;
pub mod c14;
pub mod c15;
pub mod c16;
pub mod c17;
pub mod c18;
pub mod c19;
pub mod c20;
pub mod routerw;
pub mod inc;
pub mod sys;
pub mod vaults;
pub mod pools;

pub fn dispatch(ctx: &Ctx) -> Option<(CheckMeta, Acc)> {
    match ctx.prop.as_str() {
        "C01" => Some(c01::run(ctx)),
        "C02" => Some(c02::run(ctx)),
        "C03" => Some(c03::run(ctx)),
        "C04" => Some(c04::run(ctx)),
        "C05" => Some(c05::run(ctx)),
        "C06" => Some(c06::run(ctx)),
        "C07" => Some(c07::run(ctx)),
        "C08" => Some(c08::run(ctx)),
        "C09" => Some(c09::run(ctx)),
        "C10" => Some(c10::run(ctx)),
        "C11" => Some(c11::run(ctx)),
        "C12" => Some(c12::run(ctx)),
        "C13" => Some(c13::run(ctx)),
        "C14" => Some(c14::run(ctx)),
        "C15" => Some(c15::run(ctx)),
        "C16" => Some(c16::run(ctx)),
        "C17" => Some(c17::run(ctx)),
        "C18" => Some(c18::run(ctx)),
        "C19" => Some(c19::run(ctx)),
        "C20" => Some(c20::run(ctx)),
        _ => None,
    }
}
