use crate::rt::{Acc, CheckMeta, Ctx};

pub mod c02;
pub mod pools;

pub fn dispatch(ctx: &Ctx) -> Option<(CheckMeta, Acc)> {
    match ctx.prop.as_str() {
        "C02" => Some(c02::run(ctx)),
        _ => None,
    }
}
