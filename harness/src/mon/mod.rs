use crate::rt::{Acc, CheckMeta, Ctx};

pub mod c01;
pub mod c02;
pub mod c03;
pub mod pools;

pub fn dispatch(ctx: &Ctx) -> Option<(CheckMeta, Acc)> {
    match ctx.prop.as_str() {
        "C01" => Some(c01::run(ctx)),
        "C02" => Some(c02::run(ctx)),
        "C03" => Some(c03::run(ctx)),
        _ => None,
    }
}
