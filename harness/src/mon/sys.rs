//! Full-system world (collector, distributor, lair, pool factory + pairs, router + routes, vault
//! factory + vaults) and the shared history driver for C09 (epoch ledgers) and C10 (fee pipeline).

use crate::adversary::*;
use crate::mon::c08::catch_up_epochs;
use crate::rng::{hash_str, Rng};
use crate::rt::{Acc, Ctx};
use crate::wide::*;
use crate::world::*;
use cosmwasm_std::{coin, Addr, Decimal, Empty, Uint128, Uint64};
use cw_multi_test::App;
use serde_json::{json, Value};
use std::collections::{BTreeMap, BTreeSet};
use white_whale_std::fee_collector as fc;
use white_whale_std::fee_distributor as fd;
use white_whale_std::pool_network::asset::{Asset, AssetInfo, PairType};
use white_whale_std::pool_network::pair as pm;
use white_whale_std::pool_network::router as rm;
use white_whale_std::vault_network::vault as vm;
use white_whale_std::whale_lair as lm;

pub const FUNDS: u128 = 1u128 << 100;
pub const DIST: &str = "uwhale";

pub struct SysWorld {
    pub app: App,
    pub core: Core,
    pub users: Vec<Addr>,
    pub dao: Addr,
    pub tkn: Addr,
    pub pairs: Vec<PairHandle>,
    pub pair_fees: Vec<[u128; 3]>,
    pub vaults: Vec<VaultHandle>,
    pub vault_fees: Vec<[u128; 3]>,
    pub borrower: Addr,
    pub grace: u64,
    pub take_rate: u128,
    pub take_active: bool,
    pub ops: Vec<String>,
    // C09 model
    pub rolled: BTreeSet<u64>,
    pub paid: BTreeSet<(String, u64)>,
    pub first_bond_ns: BTreeMap<String, u64>,
    /// after the distributor was replaced: the collector still holds take-rate records written for the old
    /// distributor's epoch ids up to this one (only a missing or wrong record is judged for those ids)
    pub stale_take_history_upto: u64,
}

fn native(d: &str) -> AssetRef {
    AssetRef::Native(d.to_string())
}

impl SysWorld {
    pub fn log(&mut self, s: String) {
        if self.ops.len() >= 300 {
            self.ops.remove(0);
        }
        self.ops.push(s);
    }
    pub fn tail(&self, n: usize) -> Vec<String> {
        let k = self.ops.len().saturating_sub(n);
        self.ops[k..].to_vec()
    }
    pub fn epoch(&self, id: u64) -> fd::Epoch {
        let r: fd::EpochResponse = query(&self.app, &self.core.distributor, &fd::QueryMsg::Epoch { id: Uint64::new(id) }).unwrap();
        r.epoch
    }
    pub fn current_epoch(&self) -> fd::Epoch {
        let r: fd::EpochResponse = query(&self.app, &self.core.distributor, &fd::QueryMsg::CurrentEpoch {}).unwrap();
        r.epoch
    }
    pub fn all_epochs(&self) -> Vec<fd::Epoch> {
        let cur = self.current_epoch().id.u64();
        (1..=cur).map(|i| self.epoch(i)).collect()
    }
    pub fn pair_pending(&self, i: usize) -> [u128; 2] {
        let p = &self.pairs[i];
        let pf: pm::ProtocolFeesResponse = query(&self.app, &p.addr, &pm::QueryMsg::ProtocolFees { asset_id: None, all_time: None }).unwrap();
        let mut out = [0u128; 2];
        for f in &pf.fees {
            for k in 0..2 {
                if f.info == p.assets[k].info() {
                    out[k] = f.amount.u128();
                }
            }
        }
        out
    }
    pub fn vault_pending(&self, i: usize) -> u128 {
        let pf: vm::ProtocolFeesResponse = query(&self.app, &self.vaults[i].addr, &vm::QueryMsg::ProtocolFees { all_time: false }).unwrap();
        pf.fees.amount.u128()
    }
    pub fn route(&self, offer: &AssetRef) -> Option<Vec<rm::SwapOperation>> {
        query(&self.app, &self.core.router, &rm::QueryMsg::SwapRoute { offer_asset_info: offer.info(), ask_asset_info: native(DIST).info() }).ok()
    }
}

fn asset_amt(v: &[Asset], denom: &str) -> u128 {
    v.iter().filter(|a| a.info == AssetInfo::NativeToken { denom: denom.to_string() }).map(|a| a.amount.u128()).sum()
}

pub struct SysParams {
    /// number of additional uwhale/xNN pairs (more than one default query page of the factory when >= 8)
    pub extra_pairs: usize,
    pub grace: u64,
    pub take_rate: u128,
    pub take_active: bool,
    pub with_dao: bool,
    pub routes: [bool; 3],
}

pub fn build_sys(r: &mut Rng, p: &SysParams) -> SysWorld {
    let owner = Addr::unchecked("owner");
    let users: Vec<Addr> = vec![Addr::unchecked("user0"), Addr::unchecked("user1"), Addr::unchecked("user2"), Addr::unchecked("attacker")];
    let dao = Addr::unchecked("dao");
    let extra: Vec<String> = (0..p.extra_pairs).map(|i| format!("x{i:02}")).collect();
    let mut denoms: Vec<&str> = vec![DIST, "usdc", "uatom", "ampWHALE", "bWHALE"];
    for e in &extra {
        denoms.push(e.as_str());
    }
    let mut balances = vec![];
    for u in users.iter().chain(std::iter::once(&owner)) {
        balances.push((u.clone(), denoms.iter().map(|d| coin(FUNDS, *d)).collect::<Vec<_>>()));
    }
    let mut app = new_app(balances);
    let core = deploy_core(&mut app, &owner, &CoreParams { grace_period: p.grace, unbonding_period: 3_600_000_000_000, ..Default::default() });
    for d in &denoms {
        add_native_decimals(&mut app, &owner, &core.factory, d, 6);
    }
    let bcode = app.store_code(borrower_contract());
    let borrower = inst(&mut app, bcode, &owner, &Empty {}, &[], "borrower", None).unwrap();
    let mut holders: Vec<(Addr, u128)> = users.iter().chain(std::iter::once(&owner)).map(|u| (u.clone(), FUNDS)).collect();
    holders.push((borrower.clone(), FUNDS));
    let tkn = create_cw20(&mut app, &core.codes, &owner, "TKN", 6, &holders, None);
    for d in [DIST, "usdc"] {
        bank_send(&mut app, &owner, &borrower, FUNDS / 4, d).unwrap();
    }
    // pairs
    let mut specs: Vec<[AssetRef; 2]> = vec![[native(DIST), native("usdc")], [native(DIST), AssetRef::Cw20(tkn.clone())], [native("usdc"), native("uatom")]];
    for e in &extra {
        specs.push([native(DIST), native(e)]);
    }
    let mut pairs = vec![];
    let mut pair_fees = vec![];
    for s in specs {
        let mut f = r.fee_triple();
        if f[0] == 0 {
            f[0] = ONE18 / 100;
            if f[0] + f[1] + f[2] >= ONE18 {
                f = [ONE18 / 100, ONE18 / 500, 0];
            }
        }
        let h = create_pair(&mut app, &owner, &core.factory, s, pool_fee(f), PairType::ConstantProduct).unwrap();
        pairs.push(h);
        pair_fees.push(f);
    }
    // liquidity
    for h in &pairs {
        let amt = [r.range128(1_000_000_000, 1_000_000_000_000_000), r.range128(1_000_000_000, 1_000_000_000_000_000)];
        let mut funds = vec![];
        for k in 0..2 {
            match &h.assets[k] {
                AssetRef::Native(d) => funds.push(coin(amt[k], d)),
                AssetRef::Cw20(t) => cw20_allow(&mut app, t, &owner, &h.addr, amt[k]),
            }
        }
        funds.sort_by(|a, b| a.denom.cmp(&b.denom));
        exec(&mut app, &owner, &h.addr, &pm::ExecuteMsg::ProvideLiquidity { assets: [h.assets[0].asset(amt[0]), h.assets[1].asset(amt[1])], slippage_tolerance: None, receiver: None }, &funds).unwrap();
        for k in 0..2 {
            if let AssetRef::Cw20(t) = &h.assets[k] {
                for u in &users {
                    cw20_allow(&mut app, t, u, &h.addr, u128::MAX / 2);
                }
            }
        }
    }
    // routes (router admin = owner)
    let mut routes = vec![];
    if p.routes[0] {
        routes.push(rm::SwapRoute { offer_asset_info: native("usdc").info(), ask_asset_info: native(DIST).info(), swap_operations: vec![rm::SwapOperation::TerraSwap { offer_asset_info: native("usdc").info(), ask_asset_info: native(DIST).info() }] });
    }
    if p.routes[1] {
        routes.push(rm::SwapRoute { offer_asset_info: AssetRef::Cw20(tkn.clone()).info(), ask_asset_info: native(DIST).info(), swap_operations: vec![rm::SwapOperation::TerraSwap { offer_asset_info: AssetRef::Cw20(tkn.clone()).info(), ask_asset_info: native(DIST).info() }] });
    }
    if p.routes[2] {
        routes.push(rm::SwapRoute {
            offer_asset_info: native("uatom").info(),
            ask_asset_info: native(DIST).info(),
            swap_operations: vec![rm::SwapOperation::TerraSwap { offer_asset_info: native("uatom").info(), ask_asset_info: native("usdc").info() }, rm::SwapOperation::TerraSwap { offer_asset_info: native("usdc").info(), ask_asset_info: native(DIST).info() }],
        });
    }
    if !routes.is_empty() {
        exec(&mut app, &owner, &core.router, &rm::ExecuteMsg::AddSwapRoutes { swap_routes: routes }, &[]).unwrap();
    }
    // vaults
    let mut vaults = vec![];
    let mut vault_fees = vec![];
    for a in [native(DIST), native("usdc"), AssetRef::Cw20(tkn.clone())] {
        let mut f = r.fee_triple();
        if f[0] == 0 {
            f = [ONE18 / 200, ONE18 / 1000, 0];
        }
        let h = create_vault(&mut app, &owner, &core.vault_factory, a, vault_fee(f)).unwrap();
        vaults.push(h);
        vault_fees.push(f);
    }
    for h in &vaults {
        let amt = r.range128(1_000_000_000, 1_000_000_000_000);
        if let AssetRef::Cw20(t) = &h.asset {
            cw20_allow(&mut app, t, &owner, &h.addr, amt);
        }
        exec(&mut app, &owner, &h.addr, &vm::ExecuteMsg::Deposit { amount: Uint128::new(amt) }, &h.asset.funds(amt)).unwrap();
    }
    // take rate
    exec(
        &mut app,
        &owner,
        &core.collector,
        &fc::ExecuteMsg::UpdateConfig {
            owner: None,
            pool_router: None,
            fee_distributor: None,
            pool_factory: None,
            vault_factory: None,
            take_rate: Some(dec(p.take_rate)),
            take_rate_dao_address: if p.with_dao { Some(dao.to_string()) } else { None },
            is_take_rate_active: Some(p.take_active),
        },
        &[],
    )
    .unwrap();
    catch_up_epochs(&mut app, &core, &owner);
    SysWorld {
        app,
        core,
        users,
        dao,
        tkn,
        pairs,
        pair_fees,
        vaults,
        vault_fees,
        borrower,
        grace: p.grace,
        take_rate: p.take_rate,
        take_active: p.take_active && p.with_dao,
        ops: vec![],
        rolled: BTreeSet::new(),
        paid: BTreeSet::new(),
        first_bond_ns: BTreeMap::new(), stale_take_history_upto: 0,
    }
}

fn detail(wd: &SysWorld, extra: Value) -> Value {
    json!({"grace": wd.grace, "take_rate_atomics": wd.take_rate.to_string(), "take_active": wd.take_active, "now_ns": wd.app.block_info().time.nanos(), "last_ops": wd.tail(25), "extra": extra})
}

/// E1 + E3 over all stored epochs
pub fn check_epochs(acc: &mut Acc, wd: &SysWorld, what: &str) {
    acc.count("check.E1");
    let eps = wd.all_epochs();
    let cur = eps.len() as u64;
    let mut sum_avail = 0u128;
    for e in &eps {
        let id = e.id.u64();
        let (t, a, c) = (asset_amt(&e.total, DIST), asset_amt(&e.available, DIST), asset_amt(&e.claimed, DIST));
        sum_avail += a;
        // an epoch is "expired" once it has been rolled over (it may re-enter the window when the grace
        // period is increased later; its remainder is already in a newer epoch)
        let _ = cur;
        if !wd.rolled.contains(&id) {
            if c + a != t {
                acc.violation("C09", "E1/claimed+available!=total", detail(wd, json!({"epoch": id, "total": t.to_string(), "available": a.to_string(), "claimed": c.to_string(), "step": what})));
            }
        } else {
            // expired and rolled over: available emptied, claimed <= total
            if a != 0 || c > t {
                acc.violation("C09", "E2/expired-epoch-still-has-available", detail(wd, json!({"epoch": id, "total": t.to_string(), "available": a.to_string(), "claimed": c.to_string(), "step": what})));
            }
        }
        for list in [&e.total, &e.available, &e.claimed] {
            if list.iter().any(|x| x.info != AssetInfo::NativeToken { denom: DIST.to_string() }) {
                acc.violation("C09", "E1/epoch-holds-non-distribution-asset", detail(wd, json!({"epoch": id, "step": what})));
            }
        }
    }
    acc.count("check.E3");
    let bal = bal_native(&wd.app, &wd.core.distributor, DIST);
    if bal < sum_avail {
        acc.violation("C09", "E3/distributor-balance<sum-of-available", detail(wd, json!({"balance": bal.to_string(), "sum_available": sum_avail.to_string(), "step": what})));
    } else {
        acc.slack("E3.balance-minus-available", (bal - sum_avail) as f64, || what.to_string());
    }
}

/// Claim with E4
pub fn monitored_claim(acc: &mut Acc, wd: &mut SysWorld, ui: usize) -> bool {
    let usr = wd.users[ui].clone();
    let before = wd.all_epochs();
    let bal_pre = all_native(&wd.app);
    let what = format!("claim user{ui}");
    wd.log(what.clone());
    let snap0 = snap(&wd.app);
    let res = exec(&mut wd.app, &usr, &wd.core.distributor.clone(), &fd::ExecuteMsg::Claim {}, &[]);
    match res {
        Err(_) => {
            acc.count("claim.rejected");
            acc.count("check.U1");
            if !same_state(&snap0, &snap(&wd.app)) {
                acc.violation("C09", "U1/rejected-call-changed-state", detail(wd, json!({"step": what})));
            }
            false
        }
        Ok(_) => {
            acc.count("claim.ok");
            acc.count("check.E4");
            let after = wd.all_epochs();
            let bal_post = all_native(&wd.app);
            let diff = balance_diff(&bal_pre, &bal_post);
            let got = diff.iter().find(|(a, d, _, _)| *a == usr.to_string() && d == DIST).map(|x| x.3 as i128 - x.2 as i128).unwrap_or(0);
            let mut dec_avail = 0i128;
            let mut inc_claimed = 0i128;
            for (b, a) in before.iter().zip(after.iter()) {
                let da = asset_amt(&b.available, DIST) as i128 - asset_amt(&a.available, DIST) as i128;
                let dc = asset_amt(&a.claimed, DIST) as i128 - asset_amt(&b.claimed, DIST) as i128;
                dec_avail += da;
                inc_claimed += dc;
                if asset_amt(&a.total, DIST) != asset_amt(&b.total, DIST) {
                    acc.violation("C09", "E4/claim-changed-epoch-total", detail(wd, json!({"epoch": a.id.u64(), "step": what})));
                }
                if da < 0 || dc < 0 {
                    acc.violation("C09", "E4/claim-increased-available-or-decreased-claimed", detail(wd, json!({"epoch": a.id.u64(), "step": what})));
                }
                if da > 0 {
                    let key = (usr.to_string(), a.id.u64());
                    if wd.paid.contains(&key) {
                        acc.violation("C09", "E4/address-paid-twice-for-one-epoch", detail(wd, json!({"epoch": a.id.u64(), "user": ui, "step": what})));
                    }
                    wd.paid.insert(key);
                    // never for an epoch that started before the address bonded
                    match wd.first_bond_ns.get(usr.as_str()) {
                        Some(t) if a.start_time.nanos() >= *t => {}
                        other => acc.violation("C09", "E4/paid-for-epoch-started-before-bonding", detail(wd, json!({"epoch": a.id.u64(), "epoch_start": a.start_time.nanos(), "first_bond": format!("{other:?}"), "user": ui, "step": what}))),
                    }
                    // only epochs inside the grace window pay
                    let cur = after.len() as u64;
                    if a.id.u64() + wd.grace <= cur {
                        acc.violation("C09", "E4/paid-from-epoch-outside-grace-window", detail(wd, json!({"epoch": a.id.u64(), "current": cur, "step": what})));
                    }
                }
            }
            if got != dec_avail || got != inc_claimed {
                acc.violation("C09", "E4/payout!=ledger-decrease", detail(wd, json!({"paid": got.to_string(), "available_decrease": dec_avail.to_string(), "claimed_increase": inc_claimed.to_string(), "step": what})));
            }
            // nobody else moves: only user + and distributor -
            for (a, d, b, c) in &diff {
                let ok = (a == usr.as_str() && d == DIST) || (a == wd.core.distributor.as_str() && d == DIST && (*b as i128 - *c as i128) == got);
                if !ok {
                    acc.violation("C09", "E4/claim-moved-foreign-balance", detail(wd, json!({"account": a, "denom": d, "step": what})));
                }
            }
            check_epochs(acc, wd, &what);
            true
        }
    }
}

fn claim_if_needed(acc: &mut Acc, wd: &mut SysWorld, ui: usize) {
    let c: Result<fd::ClaimableEpochsResponse, String> = query(&wd.app, &wd.core.distributor, &fd::QueryMsg::Claimable { address: wd.users[ui].to_string() });
    if let Ok(c) = c {
        if !c.epochs.is_empty() {
            monitored_claim(acc, wd, ui);
        }
    }
}

/// NewEpoch with C09 E2 and the C10 pipeline checks
pub fn monitored_new_epoch(acc: &mut Acc, wd: &mut SysWorld, caller: usize) -> bool {
    let usr = wd.users[caller].clone();
    let eps_pre = wd.all_epochs();
    let cur_pre = eps_pre.len() as u64;
    let what = format!("new_epoch by user{caller} (current {cur_pre})");
    wd.log(what.clone());
    // C10 pre-state
    let pair_pend: Vec<[u128; 2]> = (0..wd.pairs.len()).map(|i| wd.pair_pending(i)).collect();
    let vault_pend: Vec<u128> = (0..wd.vaults.len()).map(|i| wd.vault_pending(i)).collect();
    let tokens = vec![wd.tkn.clone()];
    let bal_pre = all_balances(&wd.app, &tokens);
    let coll = wd.core.collector.to_string();
    let mut assets: Vec<AssetRef> = vec![native(DIST), native("usdc"), native("uatom"), AssetRef::Cw20(wd.tkn.clone())];
    for p in &wd.pairs {
        for a in &p.assets {
            if !assets.contains(a) {
                assets.push(a.clone());
            }
        }
    }
    let routes: Vec<Option<Vec<rm::SwapOperation>>> = assets.iter().map(|a| wd.route(a)).collect();
    let snap0 = snap(&wd.app);
    crate::trap::log_clear();
    crate::trap::log_enable(true, false);
    let res = exec(&mut wd.app, &usr, &wd.core.distributor.clone(), &fd::ExecuteMsg::NewEpoch {}, &[]);
    crate::trap::log_enable(false, false);
    let calls = crate::trap::log_take();
    // F7: "a failed step leaves every balance unchanged": a NewEpoch that succeeds must not contain a
    // contract call that failed (nothing in the system is allowed to swallow a failing step)
    if res.is_ok() {
        acc.count("check.F7.no-swallowed-failure");
        acc.add("F7.contract-calls-inside-new-epoch", calls.len() as u64);
        if let Some(bad) = calls.iter().find(|c| c.outcome != 0) {
            let m: String = String::from_utf8_lossy(&bad.msg).chars().take(160).collect();
            acc.violation("C10", "F7/failed-step-swallowed-by-successful-new-epoch", detail(wd, json!({"contract": bad.contract, "entry": bad.entry, "msg": m, "err": bad.err.chars().take(160).collect::<String>(), "step": what})));
        }
    } else if calls.iter().filter(|c| c.outcome != 0).count() > 1 {
        acc.count("new_epoch.rejected.failure-inside-a-sub-call");
    }
    match res {
        Err(e) => {
            acc.count("new_epoch.rejected");
            if !e.contains("CurrentEpochNotExpired") && !e.contains("Current epoch has not expired") {
                acc.count("new_epoch.rejected.other");
                let last: String = e.lines().last().unwrap_or("").chars().map(|c| if c.is_ascii_digit() { '#' } else { c }).take(100).collect();
                acc.add(&format!("new_epoch.error: {last}"), 1);
            }
            acc.count("check.U1");
            if !same_state(&snap0, &snap(&wd.app)) {
                acc.violation("C10", "U1/failed-new-epoch-changed-state", detail(wd, json!({"step": what})));
            }
            false
        }
        Ok(resp) => {
            acc.count("new_epoch.ok");
            // protocol fees charged by the aggregation swaps of this very transaction, per (pair, asset id)
            let mut swap_fees: BTreeMap<(usize, String), u128> = BTreeMap::new();
            for e in &resp.events {
                if e.ty != "wasm" {
                    continue;
                }
                let get = |k: &str| e.attributes.iter().find(|a| a.key == k).map(|a| a.value.clone());
                if get("action").as_deref() != Some("swap") {
                    continue;
                }
                let Some(ca) = get("_contract_addr") else { continue };
                if let Some(pi) = wd.pairs.iter().position(|p| p.addr.as_str() == ca) {
                    let ask = get("ask_asset").unwrap_or_default();
                    let pf = get("protocol_fee_amount").and_then(|s| s.parse::<u128>().ok()).unwrap_or(0);
                    *swap_fees.entry((pi, ask)).or_insert(0) += pf;
                }
            }
            let eps_post = wd.all_epochs();
            let new = eps_post.last().cloned().unwrap();
            let bal_post = all_balances(&wd.app, &tokens);
            let get = |m: &BTreeMap<(String, String), u128>, acct: &str, asset: &str| m.get(&(acct.to_string(), asset.to_string())).copied().unwrap_or(0);
            // ---------------- C09 E2
            acc.count("check.E2");
            if new.id.u64() != cur_pre + 1 {
                acc.violation("C09", "E2/new-epoch-id", detail(wd, json!({"new": new.id.u64(), "prev": cur_pre, "step": what})));
            }
            let expiring: Option<&fd::Epoch> = if cur_pre >= wd.grace && wd.grace >= 1 { eps_pre.get((cur_pre - wd.grace) as usize) } else { None };
            let d_dist = get(&bal_post, wd.core.distributor.as_str(), DIST) as i128 - get(&bal_pre, wd.core.distributor.as_str(), DIST) as i128;
            let rolled = expiring.map(|e| asset_amt(&e.available, DIST)).unwrap_or(0);
            if let Some(e) = expiring {
                let id = e.id.u64();
                if rolled > 0 {
                    acc.count("new_epoch.rolled-over-unclaimed");
                    if wd.rolled.contains(&id) {
                        acc.violation("C09", "E2/epoch-rolled-over-twice", detail(wd, json!({"epoch": id, "step": what})));
                    }
                }
                wd.rolled.insert(id);
                let after = &eps_post[(id - 1) as usize];
                if asset_amt(&after.available, DIST) != 0 {
                    acc.violation("C09", "E2/expiring-epoch-available-not-emptied", detail(wd, json!({"epoch": id, "available": asset_amt(&after.available, DIST).to_string(), "step": what})));
                }
            }
            let new_total = asset_amt(&new.total, DIST);
            let new_avail = asset_amt(&new.available, DIST);
            if new_total as i128 != d_dist + rolled as i128 || new_avail != new_total {
                acc.violation("C09", "E2/new-epoch-total!=forwarded+rolled-over", detail(wd, json!({"new_total": new_total.to_string(), "new_available": new_avail.to_string(), "forwarded": d_dist.to_string(), "rolled_over": rolled.to_string(), "expiring": expiring.map(|e| e.id.u64()), "step": what})));
            }
            // every other epoch untouched
            for (b, a) in eps_pre.iter().zip(eps_post.iter()) {
                if Some(b.id) == expiring.map(|e| e.id) {
                    continue;
                }
                if b != a {
                    acc.violation("C09", "E2/non-expiring-epoch-modified-by-new-epoch", detail(wd, json!({"epoch": b.id.u64(), "step": what})));
                }
            }
            // ---------------- C10
            acc.count("check.F.pipeline");
            // F1 vault pending -> 0, pool pending per C07 (a kept amount must still be pending; a collected one reached the collector)
            let mut collected: BTreeMap<String, u128> = BTreeMap::new();
            for i in 0..wd.vaults.len() {
                let now = wd.vault_pending(i);
                if now != 0 {
                    acc.violation("C10", "F1/vault-pending-not-collected", detail(wd, json!({"vault": i, "pending_before": vault_pend[i].to_string(), "pending_after": now.to_string(), "step": what})));
                }
                *collected.entry(wd.vaults[i].asset.id()).or_insert(0) += vault_pend[i] - now.min(vault_pend[i]);
            }
            for i in 0..wd.pairs.len() {
                let now = wd.pair_pending(i);
                for k in 0..2 {
                    let fresh = swap_fees.get(&(i, wd.pairs[i].assets[k].id())).copied().unwrap_or(0);
                    let before = pair_pend[i][k];
                    // either collected (only the fees of this transaction's own aggregation swaps remain)
                    // or deferred in full (C07: an amount that is not transferred stays in the ledger)
                    if now[k] == fresh {
                        *collected.entry(wd.pairs[i].assets[k].id()).or_insert(0) += before;
                        if before > 0 {
                            acc.count("F1.pool-fee-collected");
                        }
                    } else if now[k] == before + fresh {
                        acc.count("F1.pool-fee-deferred");
                        if before > 1000 {
                            acc.violation("C10", "F1/pool-pending-above-threshold-not-collected", detail(wd, json!({"pair": i, "asset": k, "pending_before": before.to_string(), "pending_after": now[k].to_string(), "fees_of_this_tx": fresh.to_string(), "step": what})));
                        }
                    } else {
                        acc.violation("C10", "F1/pool-pending-partially-collected", detail(wd, json!({"pair": i, "asset": k, "before": before.to_string(), "after": now[k].to_string(), "fees_of_this_tx": fresh.to_string(), "step": what})));
                    }
                }
            }
            // F2 non-distribution assets: fully swapped through a registered route, or left untouched
            for (ai, a) in assets.iter().enumerate() {
                if a.id() == DIST {
                    continue;
                }
                let pre = get(&bal_pre, &coll, &a.id());
                let post = get(&bal_post, &coll, &a.id());
                let col = collected.get(&a.id()).copied().unwrap_or(0);
                let untouched = post == pre + col;
                let swapped = post == 0 && pre + col > 0;
                acc.count(if swapped { "F2.asset-swapped" } else { "F2.asset-left-in-collector" });
                if !untouched && !swapped {
                    acc.violation("C10", "F2/non-distribution-asset-neither-swapped-nor-untouched", detail(wd, json!({"asset": a.id(), "pre": pre.to_string(), "collected": col.to_string(), "post": post.to_string(), "step": what})));
                }
                if swapped && !untouched && routes[ai].is_none() {
                    acc.violation("C10", "F2/asset-swapped-without-registered-route", detail(wd, json!({"asset": a.id(), "step": what})));
                }
            }
            // F3 DAO take
            let d_dao = get(&bal_post, wd.dao.as_str(), DIST) as i128 - get(&bal_pre, wd.dao.as_str(), DIST) as i128;
            let total_split = d_dao + d_dist;
            let history: Result<cosmwasm_std::Coin, String> = query(&wd.app, &wd.core.collector, &fc::QueryMsg::TakeRateHistory { epoch_id: new.id });
            acc.count("check.F3.take-rate");
            if wd.take_active && wd.take_rate > 0 {
                let want = to_u128(&mul_share_floor(w(total_split.max(0) as u128), wd.take_rate)).unwrap_or(u128::MAX) as i128;
                if d_dao != want {
                    acc.violation("C10", "F3/dao-take!=floor(rate*collector-balance)", detail(wd, json!({"dao_delta": d_dao.to_string(), "want": want.to_string(), "collector_balance_split": total_split.to_string(), "step": what})));
                }
                if want > 0 {
                    acc.count("F3.take-rate-charged");
                    match history {
                        Ok(c) if c.amount.u128() as i128 == want && c.denom == DIST => {}
                        other => acc.violation("C10", "F3/take-rate-history!=dao-take", detail(wd, json!({"history": format!("{other:?}"), "want": want.to_string(), "epoch": new.id.u64(), "step": what}))),
                    }
                } else if history.is_ok() && new.id.u64() <= wd.stale_take_history_upto {
                    acc.count("F3.stale-record-of-the-replaced-distributor");
                } else if history.is_ok() {
                    acc.violation("C10", "F3/take-rate-history-recorded-for-zero-take", detail(wd, json!({"epoch": new.id.u64(), "step": what})));
                }
            } else {
                if d_dao != 0 {
                    acc.violation("C10", "F3/dao-paid-although-take-rate-inactive", detail(wd, json!({"dao_delta": d_dao.to_string(), "step": what})));
                }
                if history.is_ok() && new.id.u64() <= wd.stale_take_history_upto {
                    acc.count("F3.stale-record-of-the-replaced-distributor");
                } else if history.is_ok() {
                    acc.violation("C10", "F3/take-rate-history-recorded-although-inactive", detail(wd, json!({"epoch": new.id.u64(), "step": what})));
                }
            }
            // F4 collector's distribution-asset balance ends at 0
            let coll_dist = get(&bal_post, &coll, DIST);
            if coll_dist != 0 {
                acc.violation("C10", "F4/collector-keeps-distribution-asset", detail(wd, json!({"balance": coll_dist.to_string(), "step": what})));
            }
            // F5 nothing else in the world moved the distribution asset to third parties
            for (acct, asset, b, c) in balance_diff(&bal_pre, &bal_post) {
                let known = acct == coll || acct == wd.core.distributor.as_str() || acct == wd.dao.as_str() || acct == wd.core.router.as_str() || wd.pairs.iter().any(|p| p.addr.as_str() == acct) || wd.vaults.iter().any(|v| v.addr.as_str() == acct);
                if !known {
                    acc.violation("C10", "F5/new-epoch-moved-unrelated-balance", detail(wd, json!({"account": acct, "asset": asset, "before": b.to_string(), "after": c.to_string(), "step": what})));
                }
            }
            if get(&bal_post, wd.core.router.as_str(), DIST) != get(&bal_pre, wd.core.router.as_str(), DIST) {
                acc.violation("C10", "F5/router-kept-funds", detail(wd, json!({"step": what})));
            }
            if d_dist > 0 {
                acc.count("new_epoch.with-fees");
            }
            check_epochs(acc, wd, &what);
            true
        }
    }
}

pub fn run_history(acc: &mut Acc, r: &mut Rng, steps: u64, prop: &str) {
    let grace = r.range(1, 5);
    let p = SysParams {
        extra_pairs: if r.chance(1, 3) { 12 } else { 0 },
        grace,
        take_rate: *r.pick(&[0u128, 1, ONE18 / 10, ONE18 / 3, ONE18 - 1, ONE18 / 100]),
        take_active: r.chance(2, 3),
        with_dao: r.chance(4, 5),
        routes: [r.chance(4, 5), r.chance(3, 4), r.chance(1, 2)],
    };
    let mut wd = build_sys(r, &p);
    let mut class = vec![grace, (p.take_active as u64) * 2 + p.with_dao as u64, p.routes.iter().fold(0, |a, b| a * 2 + *b as u64)];
    let mut swaps_disabled = false;
    // in a quarter of the histories the operator replaces the fee distributor once with a fresh instance: its epoch
    // ids start again at 1, the collector and the bonding contract are pointed at it, the old one keeps what it holds
    let mut may_replace_distributor = r.chance(1, 4);
    for _step in 0..steps {
        let ui = r.idx(3);
        let usr = wd.users[ui].clone();
        if may_replace_distributor && r.chance(1, 25) && wd.all_epochs().len() >= 2 {
            may_replace_distributor = false;
            let cfg: fd::Config = query(&wd.app, &wd.core.distributor, &fd::QueryMsg::Config {}).unwrap();
            let now = wd.app.block_info().time.nanos();
            let (o, l, c) = (wd.core.owner.clone(), wd.core.lair.clone(), wd.core.collector.clone());
            let nd = inst(
                &mut wd.app,
                wd.core.codes.distributor,
                &o,
                &fd::InstantiateMsg {
                    bonding_contract_addr: l.to_string(),
                    fee_collector_addr: c.to_string(),
                    grace_period: cfg.grace_period,
                    epoch_config: white_whale_std::epoch_manager::epoch_manager::EpochConfig { duration: cfg.epoch_config.duration, genesis_epoch: Uint64::new(now) },
                    distribution_asset: cfg.distribution_asset.clone(),
                },
                &[],
                "fee_distributor_2",
                Some(o.to_string()),
            )
            .unwrap();
            exec(&mut wd.app, &o, &l, &lm::ExecuteMsg::UpdateConfig { fee_distributor_addr: Some(nd.to_string()), owner: None, unbonding_period: None, growth_rate: None }, &[]).unwrap();
            exec(&mut wd.app, &o, &c, &fc::ExecuteMsg::UpdateConfig { owner: None, pool_router: None, fee_distributor: Some(nd.to_string()), pool_factory: None, vault_factory: None, take_rate: None, take_rate_dao_address: None, is_take_rate_active: None }, &[]).unwrap();
            wd.log(format!("operator replaces the fee distributor {} -> {} (epoch ids restart)", wd.core.distributor, nd));
            wd.stale_take_history_upto = wd.all_epochs().iter().map(|e| e.id.u64()).max().unwrap_or(0);
            wd.core.distributor = nd;
            wd.rolled.clear();
            wd.paid.clear();
            acc.count("sys.distributor-replaced");
        }
        let op = r.below(100);
        if op < 22 {
            // fee-generating swap on a pair
            let pi = r.idx(wd.pairs.len());
            let dir = r.idx(2);
            let a = wd.pairs[pi].assets[dir].clone();
            let amt = r.range128(1_000, 50_000_000_000);
            let what = format!("swap pair{pi} dir{dir} {amt}");
            wd.log(what);
            let pa = wd.pairs[pi].addr.clone();
            let res = match &a {
                AssetRef::Native(d) => exec(&mut wd.app, &usr, &pa, &pm::ExecuteMsg::Swap { offer_asset: a.asset(amt), belief_price: None, max_spread: Some(dec(ONE18 / 2)), to: None }, &[coin(amt, d)]),
                AssetRef::Cw20(t) => cw20_send(&mut wd.app, t, &usr, &pa, amt, &pm::Cw20HookMsg::Swap { belief_price: None, max_spread: Some(dec(ONE18 / 2)), to: None }),
            };
            acc.count(if res.is_ok() { "sys.swap.ok" } else { "sys.swap.rejected" });
            class.push(1);
        } else if op < 32 {
            // fee-generating loan
            let vi = r.idx(wd.vaults.len());
            let bal = wd.vaults[vi].asset.balance(&wd.app, &wd.vaults[vi].addr);
            let amt = r.range128(1, bal.max(1));
            let h = &wd.vaults[vi];
            let script = vec![Step { act: Act::Repay { vault: h.addr.to_string(), asset: h.asset.info(), loan: Uint128::new(amt), mode: RepayMode::Exact }, swallow: false }];
            let (b, va) = (wd.borrower.clone(), h.addr.clone());
            wd.log(format!("loan vault{vi} {amt}"));
            let res = exec(&mut wd.app, &usr, &b, &BorrowerExec::Start { vault: va.to_string(), amount: Uint128::new(amt), script }, &[]);
            acc.count(if res.is_ok() { "sys.loan.ok" } else { "sys.loan.rejected" });
            class.push(2);
        } else if op < 38 {
            // direct transfer to the collector (distribution asset or another one)
            let d = *r.pick(&[DIST, DIST, "usdc", "uatom"]);
            let mut amt = *r.pick(&[1u128, 999, 1000, 1001, 5_000_000]);
            if d == DIST && r.chance(1, 4) {
                // 18-decimal sized inflow of the distribution asset: balance x rate x 1e18 crosses 2^128
                amt = *r.pick(&[1_000_000_000_000_000_000_000u128, 3_000_000_000_000_000_000_000_000, 340_282_366_920_938_463_463]);
            }
            wd.log(format!("transfer-to-collector {amt}{d}"));
            let c = wd.core.collector.clone();
            let _ = bank_send(&mut wd.app, &usr, &c, amt, d);
            class.push(3);
        } else if op < 52 {
            // bond
            claim_if_needed(acc, &mut wd, ui);
            let d = *r.pick(&["ampWHALE", "bWHALE"]);
            let amt = r.range128(1, 1_000_000_000);
            wd.log(format!("bond user{ui} {amt}{d}"));
            let l = wd.core.lair.clone();
            let now = wd.app.block_info().time.nanos();
            // the model remembers since when the address has had something bonded without interruption: a bond made
            // while nothing is bonded (first bond, or a new one after unbonding everything) restarts that clock
            let had_nothing = query::<lm::BondedResponse, _>(&wd.app, &l, &lm::QueryMsg::Bonded { address: usr.to_string() }).map(|b| b.total_bonded.is_zero()).unwrap_or(true);
            let res = exec(&mut wd.app, &usr, &l, &lm::ExecuteMsg::Bond { asset: native(d).asset(amt) }, &[coin(amt, d)]);
            if res.is_ok() {
                acc.count("sys.bond.ok");
                if had_nothing {
                    if wd.first_bond_ns.contains_key(usr.as_str()) {
                        acc.count("sys.bond.again-after-unbonding-everything");
                    }
                    wd.first_bond_ns.insert(usr.to_string(), now);
                } else {
                    wd.first_bond_ns.entry(usr.to_string()).or_insert(now);
                }
            } else {
                acc.count("sys.bond.rejected");
            }
            class.push(4);
        } else if op < 60 {
            claim_if_needed(acc, &mut wd, ui);
            let d = *r.pick(&["ampWHALE", "bWHALE"]);
            let b: lm::BondedResponse = query(&wd.app, &wd.core.lair, &lm::QueryMsg::Bonded { address: usr.to_string() }).unwrap();
            let have = b.bonded_assets.iter().find(|a| a.info == native(d).info()).map(|a| a.amount.u128()).unwrap_or(0);
            if have > 0 {
                let amt = if r.chance(1, 3) { have } else { r.range128(1, have) };
                wd.log(format!("unbond user{ui} {amt}{d}"));
                let l = wd.core.lair.clone();
                let res = exec(&mut wd.app, &usr, &l, &lm::ExecuteMsg::Unbond { asset: native(d).asset(amt) }, &[]);
                acc.count(if res.is_ok() { "sys.unbond.ok" } else { "sys.unbond.rejected" });
            }
            class.push(5);
        } else if op < 72 {
            monitored_claim(acc, &mut wd, ui);
            class.push(6);
        } else if op < 88 {
            // time passes; somebody creates the epoch (sometimes several attempts, sometimes late)
            let adv = *r.pick(&[DAY_NS, DAY_NS, DAY_NS + 1, DAY_NS - 1, DAY_NS / 2, 2 * DAY_NS + 5]);
            advance(&mut wd.app, 10, adv);
            for _ in 0..r.range(1, 3) {
                monitored_new_epoch(acc, &mut wd, r.idx(4));
            }
            class.push(7);
        } else if op < 91 {
            // grace period increase (and a rejected decrease)
            let ng = if r.chance(3, 4) { (wd.grace + 1).min(6) } else { wd.grace.saturating_sub(1) };
            wd.log(format!("set grace {ng}"));
            let (o, d) = (wd.core.owner.clone(), wd.core.distributor.clone());
            let res = exec(&mut wd.app, &o, &d, &fd::ExecuteMsg::UpdateConfig { owner: None, bonding_contract_addr: None, fee_collector_addr: None, grace_period: Some(Uint64::new(ng)), distribution_asset: None, epoch_config: None }, &[]);
            if res.is_ok() {
                acc.count("sys.grace-changed");
                if ng < wd.grace {
                    acc.violation("C18", "G1/grace-period-decreased", detail(&wd, json!({"from": wd.grace, "to": ng})));
                }
                // epochs that re-enter the window were already rolled over; they stay rolled
                wd.grace = ng;
            }
            class.push(8);
        } else if op < 94 {
            // take-rate change
            let tr = *r.pick(&[0u128, 1, ONE18 / 10, ONE18 / 2, ONE18 - 1]);
            let active = r.chance(2, 3);
            wd.log(format!("set take rate {tr} active={active}"));
            let (o, c) = (wd.core.owner.clone(), wd.core.collector.clone());
            let res = exec(&mut wd.app, &o, &c, &fc::ExecuteMsg::UpdateConfig { owner: None, pool_router: None, fee_distributor: None, pool_factory: None, vault_factory: None, take_rate: Some(dec(tr)), take_rate_dao_address: Some(wd.dao.to_string()), is_take_rate_active: Some(active) }, &[]);
            if res.is_ok() {
                wd.take_rate = tr;
                wd.take_active = active;
            }
            class.push(9);
        } else if op < 97 {
            // ForwardFees by anybody else must be rejected
            let c = wd.core.collector.clone();
            let snap0 = snap(&wd.app);
            let res = exec(&mut wd.app, &usr, &c, &fc::ExecuteMsg::ForwardFees { epoch: fd::Epoch::default(), forward_fees_as: native(DIST).info() }, &[]);
            acc.count("check.F6.forward-fees-auth");
            if res.is_ok() {
                acc.violation("C10", "F6/forward-fees-accepted-from-stranger", detail(&wd, json!({"user": ui})));
            } else if !same_state(&snap0, &snap(&wd.app)) {
                acc.violation("C10", "U1/rejected-call-changed-state", detail(&wd, json!({"step": "forward fees by stranger"})));
            }
            class.push(10);
        } else {
            // fault injection: disable swaps on the routed usdc/uwhale pair => a failing hop reverts the whole NewEpoch
            swaps_disabled = !swaps_disabled;
            wd.log(format!("toggle swaps_enabled on pair0 -> {}", !swaps_disabled));
            let (o, f, pa) = (wd.core.owner.clone(), wd.core.factory.clone(), wd.pairs[0].addr.clone());
            let _ = exec(
                &mut wd.app,
                &o,
                &f,
                &white_whale_std::pool_network::factory::ExecuteMsg::UpdatePairConfig { pair_addr: pa.to_string(), owner: None, fee_collector_addr: None, pool_fees: None, feature_toggle: Some(pm::FeatureToggle { withdrawals_enabled: true, deposits_enabled: true, swaps_enabled: !swaps_disabled }) },
                &[],
            );
            acc.count("sys.fault.swaps-toggle");
            class.push(11);
        }
        acc.evals += 1;
        if r.chance(1, 3) {
            advance(&mut wd.app, 1, 6_000_000_000);
        }
        if class.len() > 7 {
            acc.class_only(&class);
            class.truncate(3);
        }
    }
    check_epochs(acc, &wd, "end of history");
    for (k, v) in crate::trap::traps_take() {
        acc.add(&format!("trap-site: {k}"), v);
    }
    acc.sample(|| json!({"grace": grace, "routes": p.routes, "history_tail": wd.tail(12)}));
    let _ = (Decimal::zero(), prop);
}

pub fn run_sys_histories(ctx: &Ctx, shard: u64, acc: &mut Acc, n_hist: u64, steps: u64, prop: &str) {
    let ph = hash_str("sys-histories");
    for h in 0..ctx.scaled(n_hist) {
        let hid = 1_400_000_000 + h;
        if let Some(rp) = &ctx.replay {
            if rp.history != hid {
                continue;
            }
        }
        acc.history = hid;
        let mut r = Rng::from_parts(&[ctx.seed, ph, hash_str(prop), shard, h]);
        run_history(acc, &mut r, steps, prop);
    }
}
