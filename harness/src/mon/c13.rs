//! C13 — incentive weights and claims: pure weight monitor + rides on inc.rs.
use crate::rng::{hash_str, Rng};
use crate::rt::{run_shards, Acc, CheckMeta, Ctx};
use cosmwasm_std::Uint128;
use incentive::verif_hooks::weight::calculate_weight;
use serde_json::json;
use std::panic::{catch_unwind, AssertUnwindSafe};

const MIN_DUR: u64 = 86_400;
const MAX_DUR: u64 = 31_556_926;

fn wgt(d: u64, a: u128) -> Option<u128> {
    catch_unwind(AssertUnwindSafe(|| calculate_weight(d, Uint128::new(a)))).ok().and_then(|r| r.ok()).map(|x| x.u128())
}

fn pure_case(acc: &mut Acc, r: &mut Rng) {
    let a = match r.below(4) {
        0 => r.amount(1u128 << 100),
        1 => r.range128(1, 1000),
        _ => r.bits(100),
    };
    let d = match r.below(6) {
        0 => MIN_DUR,
        1 => MAX_DUR,
        2 => 15_778_463 - 1 + r.range(0, 2),
        3 => MIN_DUR + r.range(0, 3),
        4 => MAX_DUR - r.range(0, 3),
        _ => r.range(MIN_DUR, MAX_DUR),
    };
    let Some(w0) = wgt(d, a) else {
        acc.case(&[1, 99]);
        acc.count("pure.weight.rejected");
        return;
    };
    acc.case(&[1, (128 - a.leading_zeros()) as u64 / 8, (d / 2_000_000), (w0 / a.max(1)) as u64]);
    acc.count("check.W0.weight>=amount");
    if w0 < a {
        acc.violation("C13", "W0/weight<amount", json!({"duration": d, "amount": a.to_string(), "weight": w0.to_string()}));
    }
    let da = match r.below(3) {
        0 => 1,
        1 => r.range128(1, 1000),
        _ => r.near(a, 1u128 << 100),
    };
    if let Some(a2) = a.checked_add(da) {
        if let Some(w1) = wgt(d, a2) {
            acc.count("check.W0.monotone-in-amount");
            if w1 < w0 {
                acc.violation("C13", "W0/weight-decreases-with-amount", json!({"duration": d, "amount": a.to_string(), "amount2": a2.to_string(), "weight": w0.to_string(), "weight2": w1.to_string()}));
            }
        }
    }
    let dd = match r.below(3) {
        0 => 1,
        1 => r.range(1, 100_000),
        _ => r.range(1, MAX_DUR),
    };
    let d2 = d + dd;
    if d2 <= MAX_DUR {
        if let Some(w2) = wgt(d2, a) {
            acc.count("check.W0.monotone-in-duration");
            if w2 < w0 {
                acc.violation("C13", "W0/weight-decreases-with-duration", json!({"duration": d, "duration2": d2, "amount": a.to_string(), "weight": w0.to_string(), "weight2": w2.to_string()}));
            }
        }
    }
    acc.sample(|| json!({"duration": d, "amount": a.to_string(), "weight": w0.to_string()}));
}

pub fn run(ctx: &Ctx) -> (CheckMeta, Acc) {
    let n = ctx.tier.pick(100, 3000);
    let steps = ctx.tier.pick(150, 400);
    let per_shard = ctx.scaled(ctx.tier.pick(600_000, 60_000_000));
    let ph = hash_str("C13");
    let total = run_shards(ctx, 16, |sh, acc| {
        let (lo, hi) = match &ctx.replay {
            Some(r) if r.history >= 1_000_000_000 => (0, 0),
            Some(r) => (r.history, r.history + 1),
            None => (0, per_shard),
        };
        for i in lo..hi {
            acc.history = i;
            let mut r = Rng::from_parts(&[ctx.seed, ph, sh, i]);
            pure_case(acc, &mut r);
        }
        if ctx.replay.as_ref().map(|r| r.history >= 1_000_000_000).unwrap_or(true) {
            if !ctx.pure_only {
                crate::mon::inc::run_inc_histories(ctx, sh, acc, n, steps, "C13");
            }
        }
    });
    let meta = CheckMeta {
        level: "exploration",
        rule: "pure: calculate_weight(duration, amount) for amounts 1..2^100 and every duration class (min, max, the interpolation knot +-1, just inside the ends, random): weight >= amount, non-decreasing in amount and in duration over (x, x+delta) pairs. e2e: incentive histories (see C11) with the factory configured for the full duration range [1 day, 1 year], 4 accounts, up to 4 concurrent flows with expansions, the permissionless TakeGlobalWeightSnapshot placed at a random point of each epoch (before, between and after position changes), repeated claims. W1 raw GLOBAL_WEIGHT == sum of raw ADDRESS_WEIGHT after every committed step; W2 sum of CurrentEpochRewardsShare <= 1 whenever the epoch's snapshot exists; W3 a second claim in an epoch pays nothing; W4 what a claim takes from a flow is bounded by the emissions of the epochs it covers (exactly one epoch: by that epoch's emission); W5 Rewards{} immediately before a successful claim == what it paid, per asset.".to_string(),
        assumptions: vec!["emissions are read from Flow.emitted_tokens (cumulative) after the claim".into()],
        obligations: vec!["check.W0.weight>=amount".into(), "check.W0.monotone-in-amount".into(), "check.W0.monotone-in-duration".into(), "check.W1".into(), "check.W2".into(), "check.W3".into(), "check.W4".into(), "check.W5".into(), "check.W5.with-50-to-100-unclaimed-epochs".into(), "claim_rewards.paid".into(), "close_position.before-epoch-snapshot".into()],
    };
    (meta, total)
}
