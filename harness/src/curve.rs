//! Independent, exact solution of the stableswap invariant used by this code base
//!     Ann*S + D = Ann*D + D^(n+1) / (n^n * prod(x_i)),   Ann = A*n,
//! by monotone search on U1024 integers with exact sign tests (no Newton, no rounding).

use crate::wide::*;

/// largest v in [0, ..) with pred(v) true, for a monotone predicate (true … true false … false),
/// pred(0) must be true. Gallops outwards from `hint`.
pub fn max_true(hint: U1024, pred: impl Fn(&U1024) -> bool) -> U1024 {
    let one = U1024::one();
    let (mut lo, mut hi); // pred(lo) true, pred(hi) false
    if pred(&hint) {
        lo = hint;
        let mut step = one;
        loop {
            let cand = lo + step;
            if pred(&cand) {
                lo = cand;
                step = step << 1;
            } else {
                hi = cand;
                break;
            }
        }
    } else {
        hi = hint;
        let mut step = one;
        loop {
            if step >= hi {
                lo = U1024::zero();
                break;
            }
            let cand = hi - step;
            if pred(&cand) {
                lo = cand;
                break;
            } else {
                hi = cand;
                step = step << 1;
            }
        }
    }
    while hi - lo > one {
        let mid = (lo + hi) >> 1;
        if pred(&mid) {
            lo = mid;
        } else {
            hi = mid;
        }
    }
    lo
}

fn n_pow_n(n: usize) -> U1024 {
    match n {
        2 => U1024::from(4u64),
        3 => U1024::from(27u64),
        _ => unreachable!(),
    }
}

/// F(D) >= 0  <=>  P'*(Ann*S + D) >= Ann*D*P' + D^(n+1),  P' = n^n * prod(x)
fn d_pred(xs: &[U1024], amp: u64, d: &U1024) -> bool {
    let n = xs.len();
    let ann = U1024::from(amp) * U1024::from(n as u64);
    let mut p = n_pow_n(n);
    let mut s = U1024::zero();
    for x in xs {
        p = p * *x;
        s = s + *x;
    }
    let lhs = p * (ann * s + *d);
    let mut dp = *d;
    for _ in 0..n {
        dp = dp * *d;
    }
    let rhs = ann * *d * p + dp;
    lhs >= rhs
}

/// D* = max { D : F(D) >= 0 }.  All x must be > 0.
pub fn d_star(xs: &[U1024], amp: u64, hint: Option<U1024>) -> U1024 {
    let mut s = U1024::zero();
    for x in xs {
        s = s + *x;
    }
    let h = hint.unwrap_or(s);
    max_true(h, |d| d_pred(xs, amp, d))
}

/// y* = min { y >= 0 : the pool (others..., y) is on or above the curve with invariant D }.
/// G(y) >= 0 <=> Ann*Q*y^2 + (Ann*S' + D)*Q*y >= Ann*D*Q*y + D^(n+1), Q = n^n * prod(others)
pub fn y_star(others: &[U1024], amp: u64, d: &U1024, hint: Option<U1024>) -> U1024 {
    let n = others.len() + 1;
    let ann = U1024::from(amp) * U1024::from(n as u64);
    let mut q = n_pow_n(n);
    let mut s = U1024::zero();
    for x in others {
        q = q * *x;
        s = s + *x;
    }
    let mut dp = *d;
    for _ in 0..n {
        dp = dp * *d;
    }
    let below = |y: &U1024| -> bool {
        // true while y is strictly below the curve
        let lhs = ann * q * *y * *y + (ann * s + *d) * q * *y;
        let rhs = ann * *d * q * *y + dp;
        lhs < rhs
    };
    // largest y that is still below, +1
    let h = hint.unwrap_or(*d);
    if !below(&U1024::zero()) {
        return U1024::zero();
    }
    max_true(h, below) + U1024::one()
}

#[cfg(test)]
mod tests {
    use super::*;
    #[test]
    fn balanced_pool_d_is_sum() {
        let x = w(1_000_000_000_000);
        let d = d_star(&[x, x], 100, None);
        assert_eq!(d, x + x);
        let d3 = d_star(&[x, x, x], 100, None);
        assert_eq!(d3, x + x + x);
        let y = y_star(&[x], 100, &d, None);
        assert_eq!(y, x);
    }
}
