//! The world: real contracts (each wrapped in `Trap`) deployed in a cw-multi-test App, plus
//! snapshot / restore and balance observation helpers.

use crate::trap::Trap;
use cosmwasm_std::{
    coin, to_json_binary, Addr, BlockInfo, Coin, Decimal, Empty, Order, Timestamp, Uint128, Uint64,
};
use cw_multi_test::{App, AppBuilder, AppResponse, BankKeeper, ContractWrapper, Executor};
use serde::de::DeserializeOwned;
use serde::Serialize;
use std::collections::BTreeMap;
use white_whale_std::fee::{Fee, VaultFee};
use white_whale_std::pool_network::asset::{Asset, AssetInfo, PairType};
use white_whale_std::pool_network::pair::PoolFee;

pub const GENESIS_NS: u64 = 1_678_802_400_000_000_000;
pub const DAY_NS: u64 = 86_400_000_000_000;

pub fn dec(atomics: u128) -> Decimal {
    Decimal::new(Uint128::new(atomics))
}
pub fn fee(atomics: u128) -> Fee {
    Fee { share: dec(atomics) }
}
pub fn pool_fee(t: [u128; 3]) -> PoolFee {
    // order: protocol, swap, burn
    PoolFee { protocol_fee: fee(t[0]), swap_fee: fee(t[1]), burn_fee: fee(t[2]) }
}
pub fn trio_fee(t: [u128; 3]) -> white_whale_std::pool_network::trio::PoolFee {
    white_whale_std::pool_network::trio::PoolFee {
        protocol_fee: fee(t[0]),
        swap_fee: fee(t[1]),
        burn_fee: fee(t[2]),
    }
}
pub fn vault_fee(t: [u128; 3]) -> VaultFee {
    // order: protocol, flash loan, burn
    VaultFee { protocol_fee: fee(t[0]), flash_loan_fee: fee(t[1]), burn_fee: fee(t[2]) }
}

#[derive(Clone, Debug, PartialEq, Eq, PartialOrd, Ord, Hash)]
pub enum AssetRef {
    Native(String),
    Cw20(Addr),
}

impl AssetRef {
    pub fn info(&self) -> AssetInfo {
        match self {
            AssetRef::Native(d) => AssetInfo::NativeToken { denom: d.clone() },
            AssetRef::Cw20(a) => AssetInfo::Token { contract_addr: a.to_string() },
        }
    }
    pub fn from_info(i: &AssetInfo) -> AssetRef {
        match i {
            AssetInfo::NativeToken { denom } => AssetRef::Native(denom.clone()),
            AssetInfo::Token { contract_addr } => AssetRef::Cw20(Addr::unchecked(contract_addr)),
        }
    }
    pub fn asset(&self, amount: u128) -> Asset {
        Asset { info: self.info(), amount: Uint128::new(amount) }
    }
    pub fn id(&self) -> String {
        match self {
            AssetRef::Native(d) => d.clone(),
            AssetRef::Cw20(a) => a.to_string(),
        }
    }
    pub fn is_native(&self) -> bool {
        matches!(self, AssetRef::Native(_))
    }
    pub fn balance(&self, app: &App, who: &Addr) -> u128 {
        match self {
            AssetRef::Native(d) => bal_native(app, who, d),
            AssetRef::Cw20(t) => bal_cw20(app, t, who),
        }
    }
    pub fn supply(&self, app: &App) -> u128 {
        match self {
            AssetRef::Native(d) => supply_native(app, d),
            AssetRef::Cw20(t) => supply_cw20(app, t),
        }
    }
    /// funds vector to attach when sending `amount` of this asset natively (empty for cw20)
    pub fn funds(&self, amount: u128) -> Vec<Coin> {
        match self {
            AssetRef::Native(d) if amount > 0 => vec![coin(amount, d)],
            _ => vec![],
        }
    }
}

#[derive(Clone, Debug, Default)]
pub struct Codes {
    pub token: u64,
    pub pair: u64,
    pub trio: u64,
    pub factory: u64,
    pub router: u64,
    pub helper: u64,
    pub incentive: u64,
    pub incentive_factory: u64,
    pub vault: u64,
    pub vault_factory: u64,
    pub vault_router: u64,
    pub collector: u64,
    pub distributor: u64,
    pub lair: u64,
    pub epoch_manager: u64,
}

pub fn new_app(balances: Vec<(Addr, Vec<Coin>)>) -> App {
    let mut app = AppBuilder::new().with_bank(BankKeeper::new()).build(|router, _api, storage| {
        for (a, c) in balances {
            router.bank.init_balance(storage, &a, c).unwrap();
        }
    });
    app.set_block(BlockInfo {
        height: 1_000,
        time: Timestamp::from_nanos(GENESIS_NS),
        chain_id: "verif-1".to_string(),
    });
    app
}

pub fn store_all(app: &mut App) -> Codes {
    let mut c = Codes::default();
    c.token = app.store_code(Trap::new(Box::new(ContractWrapper::new_with_empty(
        terraswap_token::contract::execute,
        terraswap_token::contract::instantiate,
        terraswap_token::contract::query,
    ))));
    c.pair = app.store_code(Trap::new(Box::new(
        ContractWrapper::new_with_empty(
            terraswap_pair::contract::execute,
            terraswap_pair::contract::instantiate,
            terraswap_pair::contract::query,
        )
        .with_reply(terraswap_pair::contract::reply)
        .with_migrate(terraswap_pair::contract::migrate),
    )));
    c.trio = app.store_code(Trap::new(Box::new(
        ContractWrapper::new_with_empty(
            stableswap_3pool::contract::execute,
            stableswap_3pool::contract::instantiate,
            stableswap_3pool::contract::query,
        )
        .with_reply(stableswap_3pool::contract::reply)
        .with_migrate(stableswap_3pool::contract::migrate),
    )));
    c.factory = app.store_code(Trap::new(Box::new(
        ContractWrapper::new_with_empty(
            terraswap_factory::contract::execute,
            terraswap_factory::contract::instantiate,
            terraswap_factory::contract::query,
        )
        .with_reply(terraswap_factory::contract::reply)
        .with_migrate(terraswap_factory::contract::migrate),
    )));
    c.router = app.store_code(Trap::new(Box::new(
        ContractWrapper::new_with_empty(
            terraswap_router::contract::execute,
            terraswap_router::contract::instantiate,
            terraswap_router::contract::query,
        )
        .with_migrate(terraswap_router::contract::migrate),
    )));
    c.helper = app.store_code(Trap::new(Box::new(
        ContractWrapper::new_with_empty(
            frontend_helper::contract::execute,
            frontend_helper::contract::instantiate,
            frontend_helper::contract::query,
        )
        .with_reply(frontend_helper::contract::reply)
        .with_migrate(frontend_helper::contract::migrate),
    )));
    c.incentive = app.store_code(Trap::new(Box::new(
        ContractWrapper::new_with_empty(
            incentive::contract::execute,
            incentive::contract::instantiate,
            incentive::contract::query,
        )
        .with_migrate(incentive::contract::migrate),
    )));
    c.incentive_factory = app.store_code(Trap::new(Box::new(
        ContractWrapper::new_with_empty(
            incentive_factory::contract::execute,
            incentive_factory::contract::instantiate,
            incentive_factory::contract::query,
        )
        .with_reply(incentive_factory::contract::reply)
        .with_migrate(incentive_factory::contract::migrate),
    )));
    c.vault = app.store_code(Trap::new(Box::new(
        ContractWrapper::new_with_empty(
            vault::contract::execute,
            vault::contract::instantiate,
            vault::contract::query,
        )
        .with_reply(vault::reply::reply)
        .with_migrate(vault::contract::migrate),
    )));
    c.vault_factory = app.store_code(Trap::new(Box::new(
        ContractWrapper::new_with_empty(
            vault_factory::contract::execute,
            vault_factory::contract::instantiate,
            vault_factory::contract::query,
        )
        .with_reply(vault_factory::reply::reply)
        .with_migrate(vault_factory::contract::migrate),
    )));
    c.vault_router = app.store_code(Trap::new(Box::new(
        ContractWrapper::new_with_empty(
            vault_router::contract::execute,
            vault_router::contract::instantiate,
            vault_router::contract::query,
        )
        .with_migrate(vault_router::contract::migrate),
    )));
    c.collector = app.store_code(Trap::new(Box::new(
        ContractWrapper::new_with_empty(
            fee_collector::contract::execute,
            fee_collector::contract::instantiate,
            fee_collector::contract::query,
        )
        .with_reply(fee_collector::contract::reply)
        .with_migrate(fee_collector::contract::migrate),
    )));
    c.distributor = app.store_code(Trap::new(Box::new(
        ContractWrapper::new_with_empty(
            fee_distributor::contract::execute,
            fee_distributor::contract::instantiate,
            fee_distributor::contract::query,
        )
        .with_reply(fee_distributor::contract::reply)
        .with_migrate(fee_distributor::contract::migrate),
    )));
    c.lair = app.store_code(Trap::new(Box::new(
        ContractWrapper::new_with_empty(
            whale_lair::contract::execute,
            whale_lair::contract::instantiate,
            whale_lair::contract::query,
        )
        .with_migrate(whale_lair::contract::migrate),
    )));
    c.epoch_manager = app.store_code(Trap::new(Box::new(
        ContractWrapper::new_with_empty(
            epoch_manager::contract::execute,
            epoch_manager::contract::instantiate,
            epoch_manager::contract::query,
        )
        .with_migrate(epoch_manager::contract::migrate),
    )));
    c
}

// ---------------------------------------------------------------------------------------------
// calls

pub fn exec<T: Serialize + std::fmt::Debug>(
    app: &mut App,
    sender: &Addr,
    contract: &Addr,
    msg: &T,
    funds: &[Coin],
) -> Result<AppResponse, String> {
    app.execute_contract(sender.clone(), contract.clone(), msg, funds)
        .map_err(|e| format!("{e:#}"))
}

pub fn inst<T: Serialize>(
    app: &mut App,
    code: u64,
    sender: &Addr,
    msg: &T,
    funds: &[Coin],
    label: &str,
    admin: Option<String>,
) -> Result<Addr, String> {
    app.instantiate_contract(code, sender.clone(), msg, funds, label, admin)
        .map_err(|e| format!("{e:#}"))
}

pub fn query<T: DeserializeOwned, M: Serialize>(app: &App, contract: &Addr, msg: &M) -> Result<T, String> {
    app.wrap().query_wasm_smart(contract.clone(), msg).map_err(|e| format!("{e}"))
}

/// like `query`, but decodes the answer with serde_json (std): needed for responses whose maps have
/// integer keys (Flow.emitted_tokens / asset_history), which serde-json-wasm cannot deserialize
pub fn query_std<T: DeserializeOwned, M: Serialize>(app: &App, contract: &Addr, msg: &M) -> Result<T, String> {
    use cosmwasm_std::{ContractResult, QueryRequest, SystemResult, WasmQuery};
    let req: QueryRequest<Empty> = QueryRequest::Wasm(WasmQuery::Smart { contract_addr: contract.to_string(), msg: to_json_binary(msg).map_err(|e| e.to_string())? });
    let raw = cosmwasm_std::to_json_vec(&req).map_err(|e| e.to_string())?;
    match app.wrap().raw_query(&raw) {
        SystemResult::Ok(ContractResult::Ok(bin)) => serde_json::from_slice(bin.as_slice()).map_err(|e| e.to_string()),
        SystemResult::Ok(ContractResult::Err(e)) => Err(e),
        SystemResult::Err(e) => Err(e.to_string()),
    }
}

pub fn bank_send(app: &mut App, from: &Addr, to: &Addr, amount: u128, denom: &str) -> Result<AppResponse, String> {
    app.send_tokens(from.clone(), to.clone(), &[coin(amount, denom)]).map_err(|e| format!("{e:#}"))
}

/// attribute lookup over all events of a response (last occurrence wins when `last`)
pub fn attr(resp: &AppResponse, key: &str) -> Option<String> {
    let mut out = None;
    for e in &resp.events {
        for a in &e.attributes {
            if a.key == key {
                out = Some(a.value.clone());
            }
        }
    }
    out
}
pub fn attr_first(resp: &AppResponse, key: &str) -> Option<String> {
    for e in &resp.events {
        for a in &e.attributes {
            if a.key == key {
                return Some(a.value.clone());
            }
        }
    }
    None
}
/// attribute value within the wasm event emitted by `contract` whose "action" equals `action`
pub fn attrs_of_action(resp: &AppResponse, contract: &Addr, action: &str) -> Vec<BTreeMap<String, String>> {
    let mut out = vec![];
    for e in &resp.events {
        if e.ty != "wasm" {
            continue;
        }
        let mut m = BTreeMap::new();
        for a in &e.attributes {
            m.entry(a.key.clone()).or_insert(a.value.clone());
        }
        if m.get("_contract_addr").map(|s| s.as_str()) == Some(contract.as_str())
            && m.get("action").map(|s| s.as_str()) == Some(action)
        {
            out.push(m);
        }
    }
    out
}

// ---------------------------------------------------------------------------------------------
// balances

pub fn bal_native(app: &App, who: &Addr, denom: &str) -> u128 {
    app.wrap().query_balance(who.to_string(), denom).map(|c| c.amount.u128()).unwrap_or(0)
}
pub fn bal_cw20(app: &App, token: &Addr, who: &Addr) -> u128 {
    let r: Result<cw20::BalanceResponse, _> =
        app.wrap().query_wasm_smart(token.clone(), &cw20::Cw20QueryMsg::Balance { address: who.to_string() });
    r.map(|b| b.balance.u128()).unwrap_or(0)
}
pub fn supply_cw20(app: &App, token: &Addr) -> u128 {
    let r: Result<cw20::TokenInfoResponse, _> =
        app.wrap().query_wasm_smart(token.clone(), &cw20::Cw20QueryMsg::TokenInfo {});
    r.map(|b| b.total_supply.u128()).unwrap_or(0)
}

fn lp(ns: &[u8]) -> Vec<u8> {
    let mut out = vec![];
    out.extend_from_slice(&(ns.len() as u16).to_be_bytes());
    out.extend_from_slice(ns);
    out
}
fn bank_prefix() -> Vec<u8> {
    let mut p = lp(b"bank");
    p.extend(lp(b"balances"));
    p
}
fn prefix_end(p: &[u8]) -> Vec<u8> {
    let mut e = p.to_vec();
    for i in (0..e.len()).rev() {
        if e[i] != 0xff {
            e[i] += 1;
            e.truncate(i + 1);
            return e;
        }
    }
    vec![0xff; p.len() + 1]
}

#[derive(serde::Deserialize)]
struct CoinDe {
    denom: String,
    amount: Uint128,
}

/// every (account, denom) native balance held in the bank module
pub fn all_native(app: &App) -> BTreeMap<(String, String), u128> {
    let p = bank_prefix();
    let e = prefix_end(&p);
    app.read_module(|_, _, storage| {
        let mut out = BTreeMap::new();
        for (k, v) in storage.range(Some(&p), Some(&e), Order::Ascending) {
            let acct = String::from_utf8_lossy(&k[p.len()..]).to_string();
            let coins: Vec<CoinDe> = serde_json::from_slice(&v).unwrap_or_default();
            for c in coins {
                if !c.amount.is_zero() {
                    out.insert((acct.clone(), c.denom), c.amount.u128());
                }
            }
        }
        out
    })
}
pub fn supply_native(app: &App, denom: &str) -> u128 {
    all_native(app).iter().filter(|((_, d), _)| d == denom).map(|(_, v)| *v).sum()
}

fn contract_prefix(contract: &Addr) -> Vec<u8> {
    let mut ns = b"contract_data/".to_vec();
    ns.extend_from_slice(contract.as_bytes());
    let mut p = lp(b"wasm");
    p.extend(lp(&ns));
    p
}

/// all cw20 balances of one token contract (raw `balance` map)
pub fn all_cw20(app: &App, token: &Addr) -> BTreeMap<String, u128> {
    let mut p = contract_prefix(token);
    p.extend(lp(b"balance"));
    let e = prefix_end(&p);
    app.read_module(|_, _, storage| {
        let mut out = BTreeMap::new();
        for (k, v) in storage.range(Some(&p), Some(&e), Order::Ascending) {
            let acct = String::from_utf8_lossy(&k[p.len()..]).to_string();
            let amt: Uint128 = serde_json::from_slice(&v).unwrap_or_default();
            if !amt.is_zero() {
                out.insert(acct, amt.u128());
            }
        }
        out
    })
}

/// All balances in the world: key (account, asset id)
pub fn all_balances(app: &App, tokens: &[Addr]) -> BTreeMap<(String, String), u128> {
    let mut m = all_native(app);
    for t in tokens {
        for (a, v) in all_cw20(app, t) {
            m.insert((a, t.to_string()), v);
        }
    }
    m
}

/// (account, asset, before, after) for every entry that differs
pub fn balance_diff(
    before: &BTreeMap<(String, String), u128>,
    after: &BTreeMap<(String, String), u128>,
) -> Vec<(String, String, u128, u128)> {
    let mut out = vec![];
    for (k, b) in before {
        let a = after.get(k).copied().unwrap_or(0);
        if a != *b {
            out.push((k.0.clone(), k.1.clone(), *b, a));
        }
    }
    for (k, a) in after {
        if !before.contains_key(k) {
            out.push((k.0.clone(), k.1.clone(), 0, *a));
        }
    }
    out
}

/// raw storage item of a contract (top-level `Item` key)
pub fn raw_item(app: &App, contract: &Addr, key: &[u8]) -> Option<Vec<u8>> {
    let mut p = contract_prefix(contract);
    p.extend_from_slice(key);
    app.read_module(|_, _, storage| storage.get(&p))
}
pub fn raw_dump(app: &App, contract: &Addr) -> Vec<(Vec<u8>, Vec<u8>)> {
    app.dump_wasm_raw(contract)
}

// ---------------------------------------------------------------------------------------------
// snapshots

#[derive(Clone)]
pub struct Snap {
    pub kv: Vec<(Vec<u8>, Vec<u8>)>,
    pub block: BlockInfo,
}

pub fn snap(app: &App) -> Snap {
    let kv = app.read_module(|_, _, storage| storage.range(None, None, Order::Ascending).collect::<Vec<_>>());
    Snap { kv, block: app.block_info() }
}

pub fn restore(app: &mut App, s: &Snap) {
    app.init_modules(|_, _, storage| {
        let keys: Vec<Vec<u8>> = storage.range(None, None, Order::Ascending).map(|(k, _)| k).collect();
        for k in keys {
            storage.remove(&k);
        }
        for (k, v) in &s.kv {
            storage.set(k, v);
        }
    });
    app.set_block(s.block.clone());
}

pub fn same_state(a: &Snap, b: &Snap) -> bool {
    a.kv == b.kv
}

/// keys that differ between two snapshots (for diagnostics), decoded lossy
pub fn snap_diff(a: &Snap, b: &Snap) -> Vec<String> {
    let ma: BTreeMap<_, _> = a.kv.iter().cloned().collect();
    let mb: BTreeMap<_, _> = b.kv.iter().cloned().collect();
    let mut out = vec![];
    for (k, v) in &ma {
        match mb.get(k) {
            Some(v2) if v2 == v => {}
            _ => out.push(String::from_utf8_lossy(k).to_string()),
        }
    }
    for k in mb.keys() {
        if !ma.contains_key(k) {
            out.push(String::from_utf8_lossy(k).to_string());
        }
    }
    out
}

// ---------------------------------------------------------------------------------------------
// time

pub fn advance(app: &mut App, blocks: u64, nanos: u64) {
    app.update_block(|b| {
        b.height += blocks;
        b.time = b.time.plus_nanos(nanos);
    });
}

// ---------------------------------------------------------------------------------------------
// tokens

pub fn create_cw20(
    app: &mut App,
    codes: &Codes,
    creator: &Addr,
    symbol: &str,
    decimals: u8,
    balances: &[(Addr, u128)],
    minter: Option<&Addr>,
) -> Addr {
    let msg = white_whale_std::pool_network::token::InstantiateMsg {
        name: format!("token {symbol}"),
        symbol: symbol.to_string(),
        decimals,
        initial_balances: balances
            .iter()
            .map(|(a, v)| cw20::Cw20Coin { address: a.to_string(), amount: Uint128::new(*v) })
            .collect(),
        mint: minter.map(|m| cw20::MinterResponse { minter: m.to_string(), cap: None }),
    };
    inst(app, codes.token, creator, &msg, &[], symbol, None).expect("create cw20")
}

pub fn cw20_allow(app: &mut App, token: &Addr, owner: &Addr, spender: &Addr, amount: u128) {
    let _ = exec(
        app,
        owner,
        token,
        &cw20::Cw20ExecuteMsg::IncreaseAllowance {
            spender: spender.to_string(),
            amount: Uint128::new(amount),
            expires: None,
        },
        &[],
    );
}

pub fn cw20_send<M: Serialize>(
    app: &mut App,
    token: &Addr,
    sender: &Addr,
    contract: &Addr,
    amount: u128,
    hook: &M,
) -> Result<AppResponse, String> {
    exec(
        app,
        sender,
        token,
        &cw20::Cw20ExecuteMsg::Send {
            contract: contract.to_string(),
            amount: Uint128::new(amount),
            msg: to_json_binary(hook).unwrap(),
        },
        &[],
    )
}

pub fn cw20_transfer(app: &mut App, token: &Addr, sender: &Addr, to: &Addr, amount: u128) -> Result<AppResponse, String> {
    exec(
        app,
        sender,
        token,
        &cw20::Cw20ExecuteMsg::Transfer { recipient: to.to_string(), amount: Uint128::new(amount) },
        &[],
    )
}

/// transfer of either asset kind
pub fn transfer(app: &mut App, asset: &AssetRef, from: &Addr, to: &Addr, amount: u128) -> Result<AppResponse, String> {
    match asset {
        AssetRef::Native(d) => bank_send(app, from, to, amount, d),
        AssetRef::Cw20(t) => cw20_transfer(app, t, from, to, amount),
    }
}

// ---------------------------------------------------------------------------------------------
// core deployment (collector, distributor, lair, pool factory, router, vault factory, vault router,
// incentive factory, helper, epoch manager) the way scripts/deployment does it.

#[derive(Clone, Debug)]
pub struct Core {
    pub codes: Codes,
    pub owner: Addr,
    pub collector: Addr,
    pub distributor: Addr,
    pub lair: Addr,
    pub factory: Addr,
    pub router: Addr,
    pub vault_factory: Addr,
    pub vault_router: Addr,
}

#[derive(Clone, Debug)]
pub struct CoreParams {
    pub grace_period: u64,
    pub epoch_duration: u64,
    pub genesis: u64,
    pub distribution_denom: String,
    pub bonding_denoms: Vec<String>,
    pub unbonding_period: u64,
    pub growth_rate: Decimal,
}
impl Default for CoreParams {
    fn default() -> Self {
        CoreParams {
            grace_period: 2,
            epoch_duration: DAY_NS,
            genesis: GENESIS_NS,
            distribution_denom: "uwhale".to_string(),
            bonding_denoms: vec!["ampWHALE".to_string(), "bWHALE".to_string()],
            unbonding_period: 1_000_000_000_000,
            growth_rate: Decimal::one(),
        }
    }
}

pub fn deploy_core(app: &mut App, owner: &Addr, p: &CoreParams) -> Core {
    let codes = store_all(app);
    let collector = inst(app, codes.collector, owner, &white_whale_std::fee_collector::InstantiateMsg {}, &[], "fee_collector", Some(owner.to_string())).unwrap();
    let factory = inst(
        app,
        codes.factory,
        owner,
        &white_whale_std::pool_network::factory::InstantiateMsg {
            pair_code_id: codes.pair,
            trio_code_id: codes.trio,
            token_code_id: codes.token,
            fee_collector_addr: collector.to_string(),
        },
        &[],
        "pool_factory",
        Some(owner.to_string()),
    )
    .unwrap();
    let router = inst(
        app,
        codes.router,
        owner,
        &white_whale_std::pool_network::router::InstantiateMsg { terraswap_factory: factory.to_string() },
        &[],
        "pool_router",
        Some(owner.to_string()),
    )
    .unwrap();
    let vault_factory = inst(
        app,
        codes.vault_factory,
        owner,
        &white_whale_std::vault_network::vault_factory::InstantiateMsg {
            owner: owner.to_string(),
            vault_id: codes.vault,
            token_id: codes.token,
            fee_collector_addr: collector.to_string(),
        },
        &[],
        "vault_factory",
        Some(owner.to_string()),
    )
    .unwrap();
    let vault_router = inst(
        app,
        codes.vault_router,
        owner,
        &white_whale_std::vault_network::vault_router::InstantiateMsg {
            owner: owner.to_string(),
            vault_factory_addr: vault_factory.to_string(),
        },
        &[],
        "vault_router",
        Some(owner.to_string()),
    )
    .unwrap();
    let lair = inst(
        app,
        codes.lair,
        owner,
        &white_whale_std::whale_lair::InstantiateMsg {
            unbonding_period: Uint64::new(p.unbonding_period),
            growth_rate: p.growth_rate,
            bonding_assets: p.bonding_denoms.iter().map(|d| AssetInfo::NativeToken { denom: d.clone() }).collect(),
        },
        &[],
        "whale_lair",
        Some(owner.to_string()),
    )
    .unwrap();
    let distributor = inst(
        app,
        codes.distributor,
        owner,
        &white_whale_std::fee_distributor::InstantiateMsg {
            bonding_contract_addr: lair.to_string(),
            fee_collector_addr: collector.to_string(),
            grace_period: Uint64::new(p.grace_period),
            epoch_config: white_whale_std::epoch_manager::epoch_manager::EpochConfig {
                duration: Uint64::new(p.epoch_duration),
                genesis_epoch: Uint64::new(p.genesis),
            },
            distribution_asset: AssetInfo::NativeToken { denom: p.distribution_denom.clone() },
        },
        &[],
        "fee_distributor",
        Some(owner.to_string()),
    )
    .unwrap();
    exec(
        app,
        owner,
        &lair,
        &white_whale_std::whale_lair::ExecuteMsg::UpdateConfig {
            fee_distributor_addr: Some(distributor.to_string()),
            owner: None,
            unbonding_period: None,
            growth_rate: None,
        },
        &[],
    )
    .unwrap();
    exec(
        app,
        owner,
        &collector,
        &white_whale_std::fee_collector::ExecuteMsg::UpdateConfig {
            owner: None,
            pool_router: Some(router.to_string()),
            fee_distributor: Some(distributor.to_string()),
            pool_factory: Some(factory.to_string()),
            vault_factory: Some(vault_factory.to_string()),
            take_rate: None,
            take_rate_dao_address: None,
            is_take_rate_active: None,
        },
        &[],
    )
    .unwrap();
    Core { codes, owner: owner.clone(), collector, distributor, lair, factory, router, vault_factory, vault_router }
}

/// Lighter deployment: only collector (plain address holder), pool factory and router.
pub struct PoolCore {
    pub codes: Codes,
    pub owner: Addr,
    pub collector: Addr,
    pub factory: Addr,
    pub router: Addr,
}

pub fn deploy_pool_core(app: &mut App, owner: &Addr) -> PoolCore {
    let codes = store_all(app);
    let collector = inst(app, codes.collector, owner, &white_whale_std::fee_collector::InstantiateMsg {}, &[], "fee_collector", Some(owner.to_string())).unwrap();
    let factory = inst(
        app,
        codes.factory,
        owner,
        &white_whale_std::pool_network::factory::InstantiateMsg {
            pair_code_id: codes.pair,
            trio_code_id: codes.trio,
            token_code_id: codes.token,
            fee_collector_addr: collector.to_string(),
        },
        &[],
        "pool_factory",
        Some(owner.to_string()),
    )
    .unwrap();
    let router = inst(
        app,
        codes.router,
        owner,
        &white_whale_std::pool_network::router::InstantiateMsg { terraswap_factory: factory.to_string() },
        &[],
        "pool_router",
        Some(owner.to_string()),
    )
    .unwrap();
    PoolCore { codes, owner: owner.clone(), collector, factory, router }
}

pub fn add_native_decimals(app: &mut App, owner: &Addr, factory: &Addr, denom: &str, decimals: u8) {
    exec(
        app,
        owner,
        factory,
        &white_whale_std::pool_network::factory::ExecuteMsg::AddNativeTokenDecimals { denom: denom.to_string(), decimals },
        &[],
    )
    .unwrap();
}

pub struct PairHandle {
    pub addr: Addr,
    pub lp: Addr,
    pub assets: [AssetRef; 2],
    pub decimals: [u8; 2],
}

pub fn create_pair(
    app: &mut App,
    owner: &Addr,
    factory: &Addr,
    assets: [AssetRef; 2],
    fees: PoolFee,
    pair_type: PairType,
) -> Result<PairHandle, String> {
    let res = exec(
        app,
        owner,
        factory,
        &white_whale_std::pool_network::factory::ExecuteMsg::CreatePair {
            asset_infos: [assets[0].info(), assets[1].info()],
            pool_fees: fees,
            pair_type,
            token_factory_lp: false,
        },
        &[],
    )?;
    let addr = Addr::unchecked(attr(&res, "pair_contract_addr").ok_or("no pair addr")?);
    let lp = Addr::unchecked(attr(&res, "liquidity_token_addr").ok_or("no lp addr")?);
    let info: white_whale_std::pool_network::asset::PairInfo =
        query(app, &addr, &white_whale_std::pool_network::pair::QueryMsg::Pair {})?;
    Ok(PairHandle { addr, lp, assets, decimals: info.asset_decimals })
}

pub struct TrioHandle {
    pub addr: Addr,
    pub lp: Addr,
    pub assets: [AssetRef; 3],
}

pub fn create_trio(
    app: &mut App,
    owner: &Addr,
    factory: &Addr,
    assets: [AssetRef; 3],
    fees: white_whale_std::pool_network::trio::PoolFee,
    amp: u64,
) -> Result<TrioHandle, String> {
    let res = exec(
        app,
        owner,
        factory,
        &white_whale_std::pool_network::factory::ExecuteMsg::CreateTrio {
            asset_infos: [assets[0].info(), assets[1].info(), assets[2].info()],
            pool_fees: fees,
            amp_factor: amp,
            token_factory_lp: false,
        },
        &[],
    )?;
    let addr = Addr::unchecked(attr(&res, "trio_contract_addr").ok_or("no trio addr")?);
    let lp = Addr::unchecked(attr(&res, "liquidity_token_addr").ok_or("no lp addr")?);
    Ok(TrioHandle { addr, lp, assets })
}

pub struct VaultHandle {
    pub addr: Addr,
    pub lp: Addr,
    pub asset: AssetRef,
}

pub fn create_vault(
    app: &mut App,
    owner: &Addr,
    vault_factory: &Addr,
    asset: AssetRef,
    fees: VaultFee,
) -> Result<VaultHandle, String> {
    let res = exec(
        app,
        owner,
        vault_factory,
        &white_whale_std::vault_network::vault_factory::ExecuteMsg::CreateVault {
            asset_info: asset.info(),
            fees,
            token_factory_lp: false,
        },
        &[],
    )?;
    let _ = res;
    let addr: Option<String> = query(
        app,
        vault_factory,
        &white_whale_std::vault_network::vault_factory::QueryMsg::Vault { asset_info: asset.info() },
    )?;
    let addr = Addr::unchecked(addr.ok_or("vault not registered")?);
    let cfg: white_whale_std::vault_network::vault::Config =
        query(app, &addr, &white_whale_std::vault_network::vault::QueryMsg::Config {})?;
    let lp = match cfg.lp_asset {
        AssetInfo::Token { contract_addr } => Addr::unchecked(contract_addr),
        AssetInfo::NativeToken { denom } => Addr::unchecked(denom),
    };
    Ok(VaultHandle { addr, lp, asset })
}

pub fn ignore<T>(_: T) {}
#[allow(dead_code)]
fn _unused(_: Empty) {}
