//! Runtime: tiers, sharding, per-shard accumulators, violation / known-finding handling, evidence.

use serde_json::{json, Value};
use std::collections::{BTreeMap, HashSet};
use std::time::Instant;

#[derive(Clone, Copy, Debug, PartialEq, Eq)]
pub enum Tier {
    Quick,
    Thorough,
}
impl Tier {
    pub fn name(&self) -> &'static str {
        match self {
            Tier::Quick => "quick",
            Tier::Thorough => "thorough",
        }
    }
    pub fn pick<T>(&self, q: T, t: T) -> T {
        match self {
            Tier::Quick => q,
            Tier::Thorough => t,
        }
    }
}

#[derive(Clone, Debug)]
pub struct ReplaySpec {
    pub shard: u64,
    pub history: u64,
    pub signature: String,
}

#[derive(Clone, Debug)]
pub struct Ctx {
    pub prop: String,
    pub tier: Tier,
    pub seed: u64,
    pub threads: usize,
    pub replay: Option<ReplaySpec>,
    /// volume multiplier (VERIF_SCALE, default 1.0) — for experiments only
    pub scale: f64,
    /// VERIF_PURE_ONLY=1: run only the pure-function parts (used by the Miri shard)
    pub pure_only: bool,
}

impl Ctx {
    pub fn scaled(&self, n: u64) -> u64 {
        ((n as f64) * self.scale).ceil().max(1.0) as u64
    }
}

#[derive(Clone, Debug)]
pub struct Violation {
    pub prop: String,
    pub sig: String,
    pub detail: Value,
    pub shard: u64,
    pub history: u64,
}

/// Per-shard accumulator. Merged at the end.
#[derive(Default)]
pub struct Acc {
    pub shard: u64,
    pub history: u64,
    pub evals: u64,
    pub counters: BTreeMap<String, u64>,
    pub distinct: HashSet<u64>,
    pub samples: Vec<Value>,
    pub viols: Vec<Violation>,
    pub viol_counts: BTreeMap<String, u64>,
    pub slack: BTreeMap<String, (f64, String)>,
    pub notes: BTreeMap<String, Value>,
    pub inconclusive: Vec<String>,
    pub sample_cap: usize,
}

/// replaces the digits of every number inside quotes / braces of a panic message by `#`; the `file.rs:LINE` suffix is kept
fn mask_numbers(key: &str) -> String {
    let (head, tail) = match key.rfind(" @ ") {
        Some(i) => (&key[..i], &key[i..]),
        None => (key, ""),
    };
    let mut out = String::with_capacity(key.len());
    // "trap-site: file.rs:LINE [message]" form: keep the location in front as it is
    let head = match (tail.is_empty(), head.find(" [")) {
        (true, Some(i)) => {
            out.push_str(&head[..i]);
            &head[i..]
        }
        _ => head,
    };
    let mut run = 0usize;
    for ch in head.chars() {
        if ch.is_ascii_digit() {
            run += 1;
            if run == 1 {
                out.push('#');
            }
        } else {
            run = 0;
            out.push(ch);
        }
    }
    out.push_str(tail);
    out
}

impl Acc {
    pub fn new(shard: u64) -> Self {
        Acc { shard, sample_cap: 4, ..Default::default() }
    }
    pub fn count(&mut self, key: &str) {
        *self.counters.entry(key.to_string()).or_insert(0) += 1;
    }
    pub fn add(&mut self, key: &str, n: u64) {
        if key.starts_with("trap-site:") {
            // panic messages carry operand values; mask every run of 3+ digits so that one site is one counter
            // (the evidence file has to stay small), keeping short numbers such as line numbers of 1-2 digits
            let k = mask_numbers(key);
            *self.counters.entry(k).or_insert(0) += n;
            return;
        }
        *self.counters.entry(key.to_string()).or_insert(0) += n;
    }
    pub fn get(&self, key: &str) -> u64 {
        self.counters.get(key).copied().unwrap_or(0)
    }
    /// register one evaluated case with its class tuple (hashed for distinct counting)
    pub fn case(&mut self, class: &[u64]) {
        self.evals += 1;
        self.distinct.insert(crate::rng::mix(class));
    }
    pub fn class_only(&mut self, class: &[u64]) {
        self.distinct.insert(crate::rng::mix(class));
    }
    pub fn sample(&mut self, v: impl FnOnce() -> Value) {
        if self.samples.len() < self.sample_cap {
            self.samples.push(v());
        }
    }
    /// record slack (how far from violating) of an inequality; keeps the minimum
    pub fn slack(&mut self, key: &str, slack: f64, witness: impl FnOnce() -> String) {
        match self.slack.get(key) {
            Some((s, _)) if *s <= slack => {}
            _ => {
                self.slack.insert(key.to_string(), (slack, witness()));
            }
        }
    }
    pub fn violation(&mut self, prop: &str, sig: &str, detail: Value) {
        let k = format!("{prop}|{sig}");
        let c = self.viol_counts.entry(k).or_insert(0);
        *c += 1;
        if *c <= 2 {
            self.viols.push(Violation {
                prop: prop.to_string(),
                sig: sig.to_string(),
                detail,
                shard: self.shard,
                history: self.history,
            });
        }
    }
    pub fn merge(&mut self, o: Acc) {
        self.evals += o.evals;
        for (k, v) in o.counters {
            *self.counters.entry(k).or_insert(0) += v;
        }
        self.distinct.extend(o.distinct);
        for s in o.samples {
            if self.samples.len() < 12 {
                self.samples.push(s);
            }
        }
        self.viols.extend(o.viols);
        for (k, v) in o.viol_counts {
            *self.viol_counts.entry(k).or_insert(0) += v;
        }
        for (k, (s, w)) in o.slack {
            match self.slack.get(&k) {
                Some((s0, _)) if *s0 <= s => {}
                _ => {
                    self.slack.insert(k, (s, w));
                }
            }
        }
        for (k, v) in o.notes {
            self.notes.entry(k).or_insert(v);
        }
        self.inconclusive.extend(o.inconclusive);
    }
}

/// Run `f(shard_index, &mut Acc)` on `n_shards` shards using up to ctx.threads OS threads.
/// A panic escaping a shard (harness bug) makes the run inconclusive, never a violation.
pub fn run_shards<F>(ctx: &Ctx, n_shards: u64, f: F) -> Acc
where
    F: Fn(u64, &mut Acc) + Sync,
{
    let next = std::sync::atomic::AtomicU64::new(0);
    let results = std::sync::Mutex::new(Vec::<Acc>::new());
    let shards: Vec<u64> = match &ctx.replay {
        Some(r) => vec![r.shard],
        None => (0..n_shards).collect(),
    };
    let nthreads = ctx.threads.min(shards.len()).max(1);
    std::thread::scope(|s| {
        for _ in 0..nthreads {
            s.spawn(|| loop {
                let i = next.fetch_add(1, std::sync::atomic::Ordering::SeqCst) as usize;
                if i >= shards.len() {
                    break;
                }
                let sh = shards[i];
                let mut acc = Acc::new(sh);
                let r = std::panic::catch_unwind(std::panic::AssertUnwindSafe(|| {
                    f(sh, &mut acc);
                }));
                if let Err(e) = r {
                    let msg = if let Some(s) = e.downcast_ref::<String>() {
                        s.clone()
                    } else if let Some(s) = e.downcast_ref::<&str>() {
                        s.to_string()
                    } else {
                        "panic".to_string()
                    };
                    let msg: String = msg.chars().take(400).collect();
                    let loc: String = crate::trap::last_panic_location().chars().take(200).collect();
                    acc.inconclusive.push(format!("shard {sh} history {} aborted by harness panic: {msg} @ {loc}", acc.history));
                }
                results.lock().unwrap().push(acc);
            });
        }
    });
    let mut total = Acc::new(0);
    let mut v = results.into_inner().unwrap();
    v.sort_by_key(|a| a.shard);
    for a in v {
        total.merge(a);
    }
    total
}

pub struct KnownFinding {
    pub property: String,
    pub signature: String,
    pub status: String,
    pub what: String,
}

pub fn load_known_findings(path: &str) -> Vec<KnownFinding> {
    let Ok(txt) = std::fs::read_to_string(path) else {
        return vec![];
    };
    let Ok(v) = serde_json::from_str::<Value>(&txt) else {
        eprintln!("warning: cannot parse {path}");
        return vec![];
    };
    let mut out = vec![];
    if let Some(arr) = v.get("findings").and_then(|a| a.as_array()) {
        for f in arr {
            out.push(KnownFinding {
                property: f["property"].as_str().unwrap_or("").to_string(),
                signature: f["signature"].as_str().unwrap_or("").to_string(),
                status: f["status"].as_str().unwrap_or("").to_string(),
                what: f["what"].as_str().unwrap_or("").to_string(),
            });
        }
    }
    out
}

pub struct Outcome {
    pub exit: i32,
}

pub struct CheckMeta {
    pub level: &'static str,
    pub rule: String,
    pub assumptions: Vec<String>,
    /// counters that must be > 0 for the run to be conclusive
    pub obligations: Vec<String>,
}

/// Finish a run: print verdict lines, write replays + evidence, compute exit code.
pub fn finish(ctx: &Ctx, meta: CheckMeta, total: Acc, started: Instant, verif_dir: &str) -> Outcome {
    let known = load_known_findings(&format!("{verif_dir}/known_findings.json"));
    let prop = ctx.prop.clone();
    let mut n_viol = 0u64;
    let mut known_hits: BTreeMap<String, u64> = BTreeMap::new();
    let mut printed: HashSet<String> = HashSet::new();
    let mut viol_lines = vec![];
    let mut replay_n = 0;
    let mut replay_per_sig: BTreeMap<String, u32> = BTreeMap::new();
    std::fs::create_dir_all(format!("{verif_dir}/replays")).ok();
    // witnesses of earlier runs of this property and tier are stale once a new run starts writing
    if ctx.replay.is_none() {
        if let Ok(rd) = std::fs::read_dir(format!("{verif_dir}/replays")) {
            let prefix = format!("{}-{}-", ctx.prop, ctx.tier.name());
            for e in rd.flatten() {
                if e.file_name().to_string_lossy().starts_with(&prefix) {
                    let _ = std::fs::remove_file(e.path());
                }
            }
        }
    }
    // violations tagged for another property are ignored here (shared workloads)
    let mut other_prop_viol: BTreeMap<String, u64> = BTreeMap::new();
    for (k, c) in &total.viol_counts {
        let (p, sig) = k.split_once('|').unwrap();
        if p != prop {
            *other_prop_viol.entry(p.to_string()).or_insert(0) += c;
            continue;
        }
        if let Some(kf) = known.iter().find(|kf| kf.property == p && kf.signature == sig && kf.status == "open") {
            *known_hits.entry(sig.to_string()).or_insert(0) += c;
            if printed.insert(sig.to_string()) {
                println!("KNOWN-FINDING: property={p} {} [signature={sig}; seen {c}x this run]", kf.what);
            }
        } else {
            n_viol += c;
        }
    }
    // debugging aid: VERIF_SHOW_OTHER=1 prints a few violations that shared workloads tagged for other properties
    if std::env::var("VERIF_SHOW_OTHER").is_ok() {
        for v in total.viols.iter().filter(|v| v.prop != prop).take(6) {
            eprintln!("other-property violation {}|{} detail={}", v.prop, v.sig, v.detail);
        }
    }
    for v in &total.viols {
        if v.prop != prop {
            continue;
        }
        if known.iter().any(|kf| kf.property == v.prop && kf.signature == v.sig && kf.status == "open") {
            continue;
        }
        let per_sig = replay_per_sig.entry(v.sig.clone()).or_insert(0u32);
        if *per_sig >= 2 || replay_n >= 80 {
            continue;
        }
        *per_sig += 1;
        replay_n += 1;
        let path = format!(
            "{verif_dir}/replays/{}-{}-s{}-sh{}-h{}-{}.json",
            prop,
            ctx.tier.name(),
            ctx.seed,
            v.shard,
            v.history,
            replay_n
        );
        let body = json!({
            "property": prop, "tier": ctx.tier.name(), "seed": ctx.seed, "shard": v.shard,
            "history": v.history, "signature": v.sig, "detail": v.detail,
            "how_to_replay": format!("cd /verif && ./check {} {} --replay {}", prop, ctx.tier.name(), path),
        });
        std::fs::write(&path, serde_json::to_string_pretty(&body).unwrap()).ok();
        viol_lines.push(format!("VIOLATION property={prop} replay={path}"));
        if replay_n <= 6 {
            let d = v.detail.to_string();
            eprintln!("violation signature={} detail={}", v.sig, if d.len() > 1500 { &d[..1500] } else { &d });
        }
    }
    // obligations
    let mut unmet = vec![];
    for o in &meta.obligations {
        if total.get(o) == 0 {
            unmet.push(o.clone());
        }
    }
    let mut inconclusive = total.inconclusive.clone();
    if ctx.replay.is_none() {
        for u in &unmet {
            inconclusive.push(format!("coverage obligation not met: {u}"));
        }
    }
    let distinct = total.distinct.len() as u64;
    let slack: BTreeMap<String, Value> = total
        .slack
        .iter()
        .map(|(k, (s, w))| (k.clone(), json!({"min_slack": s, "witness": w})))
        .collect();
    let viol_by_sig: BTreeMap<String, u64> = total.viol_counts.clone();
    let ev = json!({
        "property_id": prop,
        "tier": ctx.tier.name(),
        "seed": ctx.seed,
        "level": meta.level,
        "coverage": {
            "evaluations": total.evals,
            "distinct_nontrivial": distinct,
            "rule": meta.rule,
            "samples": total.samples,
            "exhaustive": false,
            "counters": total.counters,
            "min_slack": slack,
            "notes": total.notes,
            "known_finding_hits": known_hits,
            "violations_by_signature": viol_by_sig,
            "violations_tagged_for_other_properties_ignored_here": other_prop_viol,
            "unmet_obligations": unmet,
            "inconclusive": inconclusive,
        },
        "assumptions": meta.assumptions,
        "wall_s": started.elapsed().as_secs_f64(),
        "violations": n_viol,
    });
    if ctx.replay.is_none() {
        std::fs::create_dir_all(format!("{verif_dir}/evidence")).ok();
        let p = format!("{verif_dir}/evidence/{prop}.json");
        std::fs::write(&p, serde_json::to_string_pretty(&ev).unwrap()).expect("write evidence");
        // one line per run (all tiers / seeds), so that the multi-seed history is visible next to the
        // last run's full evidence file
        let git = |args: &[&str]| -> String { std::process::Command::new("git").args(args).output().ok().map(|o| String::from_utf8_lossy(&o.stdout).trim().to_string()).unwrap_or_default() };
        let head = git(&["-C", "/repo", "rev-parse", "--short", "HEAD"]);
        let dirty = !git(&["-C", "/repo", "status", "--porcelain", "--untracked-files=no"]).is_empty();
        let line = json!({
            "property_id": prop, "tier": ctx.tier.name(), "seed": ctx.seed, "scale": ctx.scale, "pure_only": ctx.pure_only,
            "evaluations": total.evals, "distinct_nontrivial": distinct, "violations": n_viol,
            "known_finding_hits": known_hits.values().sum::<u64>(), "inconclusive": ev["coverage"]["inconclusive"],
            "wall_s": started.elapsed().as_secs_f64(), "repo_head": head, "repo_dirty": dirty,
            "unix_time": std::time::SystemTime::now().duration_since(std::time::UNIX_EPOCH).map(|d| d.as_secs()).unwrap_or(0),
        });
        std::fs::create_dir_all(format!("{verif_dir}/runs")).ok();
        use std::io::Write;
        if let Ok(mut f) = std::fs::OpenOptions::new().create(true).append(true).open(format!("{verif_dir}/runs/{prop}.jsonl")) {
            let _ = writeln!(f, "{line}");
        }
    }
    for l in &viol_lines {
        println!("{l}");
    }
    println!(
        "{} {} seed={} evaluations={} distinct={} violations={} known_finding_hits={} wall={:.1}s",
        prop,
        ctx.tier.name(),
        ctx.seed,
        total.evals,
        distinct,
        n_viol,
        known_hits.values().sum::<u64>(),
        started.elapsed().as_secs_f64()
    );
    if n_viol > 0 {
        return Outcome { exit: 1 };
    }
    if !inconclusive.is_empty() {
        for i in &inconclusive {
            println!("INCONCLUSIVE: {i}");
        }
        return Outcome { exit: 2 };
    }
    if total.evals == 0 || distinct < 2 {
        println!("INCONCLUSIVE: observed nothing");
        return Outcome { exit: 2 };
    }
    Outcome { exit: 0 }
}
