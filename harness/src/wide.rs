//! Wide-integer oracle arithmetic, independent of cosmwasm-std's implementations.

use uint::construct_uint;

construct_uint! {
    pub struct U1024(16);
}

pub const ONE18: u128 = 1_000_000_000_000_000_000;

pub fn w(x: u128) -> U1024 {
    U1024::from(x)
}

pub fn pow10(k: u32) -> U1024 {
    let mut r = U1024::one();
    for _ in 0..k {
        r = r * U1024::from(10u64);
    }
    r
}

/// floor(a*b/c)
pub fn muldiv(a: U1024, b: U1024, c: U1024) -> U1024 {
    a * b / c
}

pub fn fits128(x: &U1024) -> bool {
    x.bits() <= 128
}
pub fn fits256(x: &U1024) -> bool {
    x.bits() <= 256
}

pub fn to_u128(x: &U1024) -> Option<u128> {
    if fits128(x) {
        Some(x.low_u128())
    } else {
        None
    }
}

/// floor(sqrt(x))
pub fn isqrt(x: U1024) -> U1024 {
    if x.is_zero() {
        return x;
    }
    let bits = x.bits();
    let mut lo = U1024::one() << ((bits - 1) / 2);
    let mut hi = U1024::one() << ((bits + 1) / 2 + 1);
    // invariant: lo^2 <= x < hi^2
    while hi - lo > U1024::one() {
        let mid = (lo + hi) >> 1;
        if mid * mid <= x {
            lo = mid;
        } else {
            hi = mid;
        }
    }
    lo
}

/// floor(amount * share) where share is an 18-decimal fixed-point number given in atomics
pub fn mul_share_floor(amount: U1024, share_atomics: u128) -> U1024 {
    amount * w(share_atomics) / w(ONE18)
}

pub fn f64_of(x: &U1024) -> f64 {
    // approximate conversion for reporting only
    let bits = x.bits();
    if bits <= 64 {
        return x.low_u64() as f64;
    }
    let shift = bits - 64;
    let top = (*x >> shift).low_u64() as f64;
    top * 2f64.powi(shift as i32)
}

/// signed difference a-b as f64 (reporting only)
pub fn diff_f64(a: &U1024, b: &U1024) -> f64 {
    if a >= b {
        f64_of(&(*a - *b))
    } else {
        -f64_of(&(*b - *a))
    }
}

pub fn mag_class(x: u128) -> u64 {
    (128 - x.leading_zeros()) as u64 / 8
}
