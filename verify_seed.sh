#!/bin/bash
# usage: verify_seed.sh <seed-name> <crate-dir-relative-to-repo> <crate-name> <demo-file-in-seed-dir> <property> "<needs>"
# Confirms in a scratch worktree (outside /repo and /verif): demo passes on the clean tree, fails with the
# patch, and the existing suite still passes with the patch. Writes seeded/<seed>/meta.json.
set -u
SEED=$1; CDIR=$2; CRATE=$3; DEMO=$4; PROP=$5; NEEDS=$6
S=/verif/seeded/$SEED
WT=${WT:-/tmp/wt/verify}
L=/tmp/vs_$SEED
if [ ! -d $WT ]; then git -C /repo worktree add -q --detach $WT HEAD; fi
cd $WT && git checkout -q --detach $(git -C /repo rev-parse HEAD) && git checkout -- . && git clean -fdq -e target
NAME=seed_$(echo $SEED | tr 'A-Z-' 'a-z_')
case "$CRATE" in */*) CARG="--manifest-path $CRATE";; *) CARG="-p $CRATE";; esac
mkdir -p $CDIR/tests && cp $S/$DEMO $CDIR/tests/$NAME.rs
cargo test $CARG --test $NAME --offline > ${L}_clean.log 2>&1; CLEAN=$?
git apply $S/patch.diff; APPLY=$?
cargo test $CARG --test $NAME --offline > ${L}_patched.log 2>&1; PATCHED=$?
rm -f $CDIR/tests/$NAME.rs; rmdir $CDIR/tests 2>/dev/null
cargo test --workspace --no-fail-fast --offline > ${L}_suite.log 2>&1
SUITE_P=$(grep -E "^test result" ${L}_suite.log | awk '{p+=$4} END {print p+0}')
SUITE_F=$(grep -E "^test result" ${L}_suite.log | awk '{f+=$6} END {print f+0}')
BUILD_ERR=$(grep -c "^error" ${L}_suite.log)
git checkout -- . ; git clean -fdq -e target
HEAD=$(git rev-parse --short HEAD)
python3 - <<PY
import json
meta={"seed":"$SEED","breaks_property":"$PROP","needs_to_manifest":"""$NEEDS""",
 "verified_at_repo_commit":"$HEAD",
 "patch_applies":$APPLY==0,
 "demo_passes_on_clean_tree":$CLEAN==0,
 "demo_fails_with_patch":$PATCHED!=0,
 "existing_suite_with_patch":{"passed":$SUITE_P,"failed":$SUITE_F,"build_errors":$BUILD_ERR},
 "what_i_ran":["cargo test -p $CRATE --test $NAME --offline (clean, then patched) in a scratch worktree","cargo test --workspace --no-fail-fast --offline with the patch applied (demo removed)"]}
try:
    old=json.load(open("$S/meta.json"))
    for k in ("caught_by","notes"):
        if k in old: meta[k]=old[k]
except Exception: pass
json.dump(meta,open("$S/meta.json","w"),indent=1)
print("$SEED","apply",$APPLY,"clean",$CLEAN,"patched",$PATCHED,"suite",$SUITE_P,$SUITE_F,"builderr",$BUILD_ERR)
PY
